"""R-OPT: option decision tables (C11): quote_style, call_parentheses, space_after_function_names."""
from engine import Report
from facts import *
from paths import *

QT = "full_moon::tokenizer::StringLiteralQuoteType"


def _cons_admits(cons, V):
    if cons is None:
        return True
    if isinstance(cons, str):
        return cons == V
    return V not in cons[1]


def _key_like(st, suffix):
    for k in st.disc:
        if k.endswith(suffix):
            return k
    return None


def rule_quote(ctx, prop):
    rep = Report(prop, "R-OPT(quote)", "get_quote_to_use: Force* returns that quote; AutoPrefer* returns the preferred quote "
                                       "unless the other needs strictly fewer escapes")
    want = {
        "ForceDouble": {"*": {"Double"}},
        "ForceSingle": {"*": {"Single"}},
        "AutoPreferDouble": {"Equal": {"Double"}, "Greater": {"Double"}, "Less": {"Single"}, "noquote": {"Double"}},
        "AutoPreferSingle": {"Equal": {"Single"}, "Greater": {"Double"}, "Less": {"Single"}, "noquote": {"Single"}},
    }
    for cfg, prog in ctx.programs.items():
        f = prog.fn("stylua_lib", "formatters::general::get_quote_to_use")
        if not rep.anchor(f is not None, "get_quote_to_use", cfg):
            continue
        try:
            res = Enumerator(f).run()
        except TooManyPaths:
            rep.anchor(False, "get_quote_to_use: too many paths", cfg)
            continue
        # the comparison is num_single.cmp(&num_double)
        cmpc = [(b, t) for b, t in f.calls() if callee(t).endswith("::cmp")]
        okorder = False
        if len(cmpc) == 1:
            a0 = {r[1] for r in provenance(f, cmpc[0][1]["args"][0], through=re.compile(PROV_THROUGH.pattern + r"|::count$|::matches$")) if r[0] == "const"}
            a1 = {r[1] for r in provenance(f, cmpc[0][1]["args"][1], through=re.compile(PROV_THROUGH.pattern + r"|::count$|::matches$")) if r[0] == "const"}
            # the char patterns reach `matches` as its second argument: look at the matches calls feeding each side
            def quote_of(arg):
                for r in provenance(f, arg, through=re.compile(PROV_THROUGH.pattern + r"|::count$")):
                    if r[0] == "call" and r[1].endswith("::matches"):
                        t = f.blocks[r[2]]["term"]
                        return {x[1] for x in provenance(f, t["args"][1], through=None) if x[0] == "const"}
                return set()
            okorder = quote_of(cmpc[0][1]["args"][0]) == {"v:'"} and quote_of(cmpc[0][1]["args"][1]) == {'v:"'}
        rep.inst(f"{f.key} compares count(') with count(\")", None, cfg, ok=okorder)
        if not okorder:
            rep.violation(f"{f.key} quote-count-comparison",
                          "the quote counts are not compared as single.cmp(double): the 'fewer escapes' direction cannot "
                          "be established", f.loc(), cfg)
        for style, table in want.items():
            got = {}
            for st in res:
                k = _key_like(st, ".quote_style")
                if not _cons_admits(st.disc.get(k) if k else None, style):
                    continue
                v = st.vals.get(0)
                out = v[2] if v and v[0] == "variant" else str(v)
                ordk = None
                for kk, vv in st.disc.items():
                    if isinstance(vv, str) and vv in ("Less", "Equal", "Greater"):
                        ordk = vv
                cls = ordk if ordk else "noquote"
                got.setdefault(cls, set()).add(out)
            if "noquote" not in got and "Equal" in got:
                # no separate "contains no quote at all" path: both counts are 0 there, i.e. the Equal row
                got["noquote"] = set(got["Equal"])
            if "*" in table:
                allv = set().union(*got.values()) if got else set()
                ok = allv == table["*"]
                rep.inst(f"{f.key} {style} -> {sorted(table['*'])}", {"style": style, "returns": sorted(allv)}, cfg, ok=ok)
                if not ok:
                    rep.violation(f"{f.key} {style} returns={sorted(allv)}",
                                  f"quote_style={style} can yield {sorted(allv)}, must always be {sorted(table['*'])}",
                                  f.loc(), cfg)
            else:
                for cls, exp in table.items():
                    ok = got.get(cls) == exp
                    rep.inst(f"{f.key} {style}/{cls} -> {sorted(exp)}", {"style": style, "case": cls,
                                                                         "returns": sorted(got.get(cls, []))}, cfg, ok=ok)
                    if not ok:
                        rep.violation(f"{f.key} {style}/{cls} returns={sorted(got.get(cls, []))}",
                                      f"quote_style={style}, case {cls} (single vs double quote count): returns "
                                      f"{sorted(got.get(cls, []))}, expected {sorted(exp)}", f.loc(), cfg)
        # who chooses the quote of a formatted string: format_token uses get_quote_to_use for non-bracket strings
        ft = prog.fn("stylua_lib", "formatters::general::format_token")
        if rep.anchor(ft is not None, "format_token", cfg):
            ok = False
            for b, si_, s in ft.stmts():
                if s["k"] == "assign" and s["rv"]["k"] == "agg" and s["rv"].get("variant") == "StringLiteral":
                    adt = prog.adt("full_moon::tokenizer::TokenType", "stylua_lib")
                    names = [x["name"] for v in adt["variants"] if v["name"] == "StringLiteral" for x in v["fields"]]
                    qi = names.index("quote_type")
                    o = s["rv"]["ops"][qi]
                    pr = provenance(ft, o, through=None)
                    if ("call", "formatters::general::get_quote_to_use") in {(r[0], r[1]) for r in pr if r[0] == "call"}:
                        ok = True
            rep.inst(f"{ft.key} quote_type = get_quote_to_use(..)", None, cfg, ok=ok)
            if not ok:
                rep.violation(f"{ft.key} quote-not-from-get_quote_to_use",
                              "format_token does not take the output quote type from get_quote_to_use", ft.loc(), cfg)
            # path form: every path of the StringLiteral arm on which the input is not known to be a bracket string takes
            # its output quote from get_quote_to_use (no other condition may route a quoted string around the choice)
            OTHERS = ("Number", "Shebang", "SingleLineComment", "MultiLineComment", "Whitespace", "InterpolatedString",
                      "Eof", "Identifier", "Symbol")
            try:
                res = Enumerator(ft, max_paths=30000,
                                 prune=lambda st, bi: any(isinstance(v, str) and v in OTHERS and k.startswith("call:") and "." not in k
                                                          for k, v in st.disc.items()) or
                                 any(isinstance(v, tuple) and v[0] == "not" and "StringLiteral" in v[1] for k, v in st.disc.items())).run()
            except TooManyPaths:
                res = []
                rep.anchor(False, "format_token[StringLiteral]: too many paths", cfg)
            nq = 0
            badp = {}
            for st in res:
                if not any(v == "StringLiteral" for v in st.disc.values()):
                    continue
                br = [v for k, v in st.hist if k.endswith("quote_type") and isinstance(v, str)]
                if br and br[-1] == "Brackets":
                    continue
                nq += 1
                trail = set(st.trail)
                chosen = [b_ for b_, c_, t_ in st.calls if c_.endswith("get_quote_to_use")]
                aggs = [(b_, s_) for b_, si_, s_ in ft.stmts() if b_ in trail and s_["k"] == "assign" and s_["rv"]["k"] == "agg"
                        and s_["rv"].get("variant") == "StringLiteral" and s_["rv"].get("adt", "").endswith("TokenType")]
                why = None
                if not chosen:
                    why = "without-get_quote_to_use"
                elif not aggs:
                    why = "token-not-rebuilt"
                else:
                    adt = prog.adt("full_moon::tokenizer::TokenType", "stylua_lib")
                    names = [x["name"] for v in adt["variants"] if v["name"] == "StringLiteral" for x in v["fields"]]
                    o = aggs[-1][1]["rv"]["ops"][names.index("quote_type")]
                    if not any(r[0] == "call" and r[1].endswith("get_quote_to_use") and r[2] in trail for r in provenance(ft, o, through=None)):
                        why = "quote-field-not-the-chosen-quote"
                if why:
                    gate = sorted({callee(ft.blocks[int(k.split(":")[1])]["term"]).split("::")[-1] for k, v in st.hist
                                   if k.startswith("dec:")})
                    badp.setdefault(why, gate)
            rep.inst(f"{ft.key} every quoted-string path chooses its quote through get_quote_to_use", {"paths": nq}, cfg, ok=not badp)
            for why, gate in sorted(badp.items()):
                rep.violation(f"{ft.key} quoted-string-path-{why}",
                              f"format_token has a path for a quoted (non-bracket) string literal that ends {why} (decided by "
                              f"{gate}): such strings keep their input quote under every quote_style", ft.loc(), cfg)
            rep.floor("quoted-string paths of format_token", nq, 1, cfg)
    return rep


def rule_space(ctx, prop):
    rep = Report(prop, "R-OPT(space)", "space_after_function_names: trivia tables and must-call siblings")
    tables = {
        "context::create_function_call_trivia": {"Always": 1, "Calls": 1, "Never": 0, "Definitions": 0},
        "context::create_function_definition_trivia": {"Always": 1, "Definitions": 1, "Never": 0, "Calls": 0},
    }
    for cfg, prog in ctx.programs.items():
        for name, want in tables.items():
            f = prog.fn("stylua_lib", name)
            if not rep.anchor(f is not None, name, cfg):
                continue
            holder = {}

            def on_call(st, bi, t, holder=holder):
                # the count handed to TokenType::spaces as known on *this* path (a `let spaces = match ..` local)
                if callee(t).endswith("TokenType::spaces"):
                    v = holder["en"].val_of(st, t["args"][0])
                    st.hist.append((f"argval:{bi}", v[1] if v and v[0] == "const" else None))
            en = Enumerator(f, on_call=on_call)
            holder["en"] = en
            res = en.run()
            for V, n in want.items():
                got = set()
                for st in res:
                    k = _key_like(st, ".space_after_function_names")
                    if not _cons_admits(st.disc.get(k) if k else None, V):
                        continue
                    for hk, hv in st.hist:
                        if isinstance(hk, str) and hk.startswith("argval:"):
                            got.add(f"v:{hv}" if hv is not None else "dynamic")
                ok = got == {f"v:{n}"}
                rep.inst(f"{f.key} {V} -> spaces({n})", {"option": V, "spaces": sorted(got)}, cfg, ok=ok)
                if not ok:
                    rep.violation(f"{f.key} {V} spaces={sorted(got)}",
                                  f"space_after_function_names={V}: {name.split('::')[-1]} yields {sorted(got)}, "
                                  f"documented meaning is {n} space(s)", f.loc(), cfg)
        # must-call siblings
        callers = {g.path for g, b, t in call_sites(prog, r"^formatters::functions::format_function_body$", "stylua_lib")}
        n = 0
        for c in sorted(callers):
            g = prog.fn("stylua_lib", c)
            n += 1
            ok = any(callee(t) == "context::create_function_definition_trivia" for _, t in g.calls())
            rep.inst(f"{g.key} applies create_function_definition_trivia", None, cfg, ok=ok)
            if not ok:
                rep.violation(f"{g.key} definition-space-not-applied",
                              f"{c} formats a function body but never applies create_function_definition_trivia: the "
                              f"option is not honoured for this kind of definition", g.loc(), cfg)
        rep.floor("callers of format_function_body", n, 3, cfg)
        for c in ("formatters::functions::format_call", "formatters::functions::format_method_call"):
            g = prog.fn("stylua_lib", c)
            if not rep.anchor(g is not None, c, cfg):
                continue
            ok = any(callee(t) == "context::create_function_call_trivia" for _, t in g.calls())
            rep.inst(f"{g.key} applies create_function_call_trivia", None, cfg, ok=ok)
            if not ok:
                rep.violation(f"{g.key} call-space-not-applied", f"{c} never applies create_function_call_trivia", g.loc(), cfg)
                continue
            # ... on every path: the formatted arguments get the trivia appended unless *they* are known not to be
            # parenthesised (the option only speaks about the space before `(`)
            try:
                res = Enumerator(g, max_paths=20000).run()
            except TooManyPaths:
                rep.anchor(False, f"{c}: too many paths", cfg)
                continue
            npath = 0
            bad = set()
            for st in res:
                ffa = [b for b, cc, t in st.calls if cc.endswith("formatters::functions::format_function_args")]
                if not ffa:
                    continue
                npath += 1
                applied = False
                for b, cc, t in st.calls:
                    if re.search(r"update_leading_trivia$", cc):
                        recv = prov_calls(provenance(g, t["args"][0]))
                        triv = provenance(g, t["args"][1])
                        # (the trivia vector is built by vec![create_function_call_trivia(ctx)]; the function calls it - checked above)
                        if any(x.endswith("format_function_args") for x in recv) and \
                                any(r[0] == "agg" and r[1].endswith("FormatTriviaType::Append") for r in triv):
                            applied = True
                # path-sensitive: the appended vector carries the call trivia only if create_function_call_trivia ran on
                # this very path (a helper that returns an empty vector for some *input* argument kinds is inlined here)
                if applied and not any(cc == "context::create_function_call_trivia" for b, cc, t in st.calls):
                    applied = False
                if applied:
                    continue
                justified = False
                for k, v in st.hist:
                    if any(k == f"call:{b}" or k.startswith(f"call:{b}.") for b in ffa):
                        if (isinstance(v, str) and v != "Parentheses") or \
                                (isinstance(v, tuple) and v[0] == "not" and "Parentheses" in v[1]):
                            justified = True
                if not justified:
                    cons = sorted(f"{k}={v if isinstance(v, str) else 'not' + str(sorted(v[1]))}" for k, v in st.hist
                                  if k.startswith("arg:") and (isinstance(v, str) or (isinstance(v, tuple) and v[0] == "not")))
                    bad.add(tuple(cons))
            rep.inst(f"{g.key} every path appends the call trivia to the formatted arguments (or they are not parenthesised)",
                     {"paths": npath}, cfg, ok=not bad)
            for cons in sorted(bad)[:2]:
                rep.violation(f"{g.key} call-space-skipped-on-path when={list(cons)}",
                              f"{c}: on a path ({list(cons) or 'unconditional'}) the formatted arguments are returned without "
                              f"the space_after_function_names trivia although they may be parenthesised (the test, if any, "
                              f"is not on the formatted arguments): `f(..)` is emitted where the option asks for `f (..)`",
                              g.loc(), cfg)
    return rep


def rule_call_parens(ctx, prop):
    rep = Report(prop, "R-OPT(parens)", "call_parentheses: omit-predicates and the decision structure of format_function_args")
    for cfg, prog in ctx.programs.items():
        for name, want in (("context::Context::should_omit_string_parens", {"None", "NoSingleString"}),
                           ("context::Context::should_omit_table_parens", {"None", "NoSingleTable"})):
            f = prog.fn("stylua_lib", name)
            if not rep.anchor(f is not None, name, cfg):
                continue
            res = Enumerator(f).run()
            cp = prog.variants("CallParenType", "stylua_lib")
            for V in cp:
                outs = set()
                for st in res:
                    k = _key_like(st, ".call_parentheses")
                    cons = st.disc.get(k) if k else None
                    # paths decided by the deprecated bool flag alone (no constraint on call_parentheses, returns true)
                    v = st.vals.get(0)
                    if k is None:
                        continue
                    if not _cons_admits(cons, V):
                        continue
                    if v and v[0] == "const":
                        outs.add(bool(v[1]))
                    elif v and v[0] == "eqtest":
                        outs.add(v[3] == V)
                    elif v and v[0] == "noteqtest":
                        outs.add(v[3] != V)
                    else:
                        outs.add("?")
                exp = V in want
                ok = outs == {exp}
                rep.inst(f"{f.key} {V} -> {exp}", {"option": V, "result": sorted(map(str, outs))}, cfg, ok=ok)
                if not ok:
                    rep.violation(f"{f.key} {V} result={sorted(map(str, outs))}",
                                  f"call_parentheses={V}: {name.split('::')[-1]} gives {sorted(map(str, outs))}, "
                                  f"documented meaning is {exp}", f.loc(), cfg)
        f = prog.fn("stylua_lib", "formatters::functions::format_function_args")
        if not rep.anchor(f is not None, "format_function_args", cfg):
            continue
        # small private helpers (`single_argument`, `wrap_argument_in_parentheses`, ..) are analysed in place
        from inline import inlined, small_helper
        f = inlined(prog, f, small_helper(prog, keep=r"::(format_\w+|hang_\w+|function_args_\w+|should_\w+|try_\w+)$|^context::|trivia_util::|^formatters::trivia::",
                                          max_blocks=60), depth=1)
        ai = [i for i in range(1, f.argc + 1) if f.locals[i] == "&full_moon::ast::FunctionArgs"][0]
        ni = [i for i in range(1, f.argc + 1) if f.locals[i].endswith("FunctionCallNextNode")][0]

        def prune_factory():
            def prune(st, bi):
                return False
            return prune
        # String / TableConstructor arms: keep-as-written iff Input || (omit && !Obscure)
        for arm, pred in (("String", "should_omit_string_parens"), ("TableConstructor", "should_omit_table_parens")):
            def oracle(fn, bi, term, st):
                return None
            try:
                res = Enumerator(f, {f"arg:{ai}": arm}, max_paths=30000).run()
            except TooManyPaths:
                rep.anchor(False, f"format_function_args[{arm}]: too many paths", cfg)
                continue
            seen = set()

            def k3_or(a, b):
                if a is True or b is True:
                    return True
                if a is False and b is False:
                    return False
                return None

            def k3_and(a, b):
                if a is False or b is False:
                    return False
                if a is True and b is True:
                    return True
                return None

            def k3_not(a):
                return None if a is None else (not a)
            for st in res:
                v = st.vals.get(0)
                out = v[2] if v and v[0] == "agg" else "?"
                k = _key_like(st, ".call_parentheses")
                cons = st.disc.get(k) if k else None
                # three-valued facts established on this path (None = not established: the path covers both)
                if cons is None:
                    is_input = None
                elif isinstance(cons, str):
                    is_input = cons == "Input"
                else:
                    is_input = False if "Input" in cons[1] else None
                omit = None
                for cb, dec in st.decisions.items():
                    if callee(f.blocks[cb]["term"]).endswith(pred):
                        omit = dec
                nn = st.disc.get(f"arg:{ni}")
                if nn is None:
                    obscure = None
                elif isinstance(nn, str):
                    obscure = nn == "ObscureWithoutParens"
                else:
                    obscure = False if "ObscureWithoutParens" in nn[1] else None
                keep_expected = k3_or(is_input, k3_and(omit, k3_not(obscure)))
                sig = (out, is_input, omit, obscure)
                if sig in seen:
                    continue
                seen.add(sig)
                if out == arm:
                    ok = keep_expected is True
                elif out == "Parentheses":
                    ok = keep_expected is False
                else:
                    ok = False
                rep.inst(f"{f.key} [{arm}] input={is_input} omit={omit} obscure={obscure} -> {out}",
                         {"arm": arm, "returns": out}, cfg, ok=ok)
                if not ok:
                    rep.violation(f"{f.key} [{arm}] input={is_input} omit={omit} obscure={obscure} returns={out}",
                                  f"format_function_args({arm}) returns {out} on a path where call_parentheses==Input is "
                                  f"{is_input}, {pred} is {omit}, next-node-obscure is {obscure} (None = not examined on "
                                  f"this path, i.e. both): the documented rule `keep as written iff Input or (omit and not "
                                  f"obscure)` evaluates to {keep_expected}", f.loc(), cfg)
            rep.floor(f"decision rows of format_function_args[{arm}]", len(seen), 3, cfg)
        # Parentheses arm: conversion to sugar only if !Input && omit && len==1 && !Obscure
        try:
            res = Enumerator(f, {f"arg:{ai}": "Parentheses"}, max_paths=200000, track_cmp=True,
                             prune=lambda st, bi: False).run()
        except TooManyPaths:
            rep.anchor(False, "format_function_args[Parentheses]: too many paths", cfg)
            continue
        nconv = 0
        seen = set()
        for st in res:
            v = st.vals.get(0)
            conv = None
            if v and v[0] == "callres":
                t = f.blocks[v[1]]["term"]
                if callee(t) == f.path:
                    # argument is a freshly built FunctionArgs::String / TableConstructor
                    ap = access_path(f, t["args"][1])
                    if ap[0][0] == "local":
                        vv = st.vals.get(ap[0][1])
                        if vv and vv[0] == "agg":
                            conv = vv[2]
            if conv is None:
                continue
            nconv += 1
            k = _key_like(st, ".call_parentheses")
            cons_ = st.disc.get(k) if k is not None else None
            # "not Input" has to be established on the path (the omit predicates are also true under the deprecated
            # no_call_parentheses flag, whatever call_parentheses says): never examined counts as possibly Input
            is_input = not ((isinstance(cons_, str) and cons_ != "Input") or (isinstance(cons_, tuple) and "Input" in cons_[1]))
            pred = "should_omit_string_parens" if conv == "String" else "should_omit_table_parens"
            omit = [dec for cb, dec in st.decisions.items() if callee(f.blocks[cb]["term"]).endswith(pred)]
            nn = st.disc.get(f"arg:{ni}")
            obscure = nn == "ObscureWithoutParens" or nn is None
            arg_kind = None
            for kk, vv in st.disc.items():
                if isinstance(vv, str) and vv in ("String", "TableConstructor") and kk != f"arg:{ai}":
                    arg_kind = vv
            # exactly one argument: `arguments.len() == 1` (or a match on len() with arm 1) holds on this path
            single = False
            for hk, hv in st.hist:
                if hk == "cmp":
                    op_, a_, b_, out_ = hv
                    side = None
                    if is_const(b_) and b_.get("v") == 1:
                        side = a_
                    elif is_const(a_) and a_.get("v") == 1:
                        side = b_
                    if side is not None and ((op_ == "Eq" and out_) or (op_ == "Ne" and not out_)) and \
                            any(c.endswith("Punctuated::<T>::len") or c.endswith("::len") for c in prov_calls(provenance(f, side))):
                        single = True
                elif isinstance(hk, str) and hk.startswith("int:") and hv == ("int", 1):
                    kb = hk[4:].split(".")[0]
                    if kb.startswith("call:") and callee(f.blocks[int(kb[5:])]["term"]).endswith("len"):
                        single = True
            ok = (not is_input) and omit and all(omit) and not obscure and arg_kind == conv and single
            sig = (conv, is_input, tuple(omit), obscure, arg_kind, single)
            if sig in seen:
                continue
            seen.add(sig)
            rep.inst(f"{f.key} [Parentheses->{conv}] guarded", {"conv": conv}, cfg, ok=bool(ok))
            if not ok:
                rep.violation(f"{f.key} [Parentheses->{conv}] input={is_input} omit={omit} obscure={obscure} arg={arg_kind} single-argument={single}",
                              f"parentheses are dropped (call sugar {conv}) on a path where call_parentheses==Input is "
                              f"{is_input}, {pred} is {omit}, obscure={obscure}, argument kind {arg_kind}, `exactly one "
                              f"argument` established: {single} (a call with several arguments would lose all but one)",
                              f.loc(), cfg)
        rep.floor("paths converting f(x) to call sugar", nconv, 2, cfg)
        # the other direction: when every documented condition holds, the only thing that may still keep the parentheses is
        # the kind of the argument - a path that keeps them without having looked at the argument decided on something else
        # the discriminant keys under which converting paths examined the argument (a later look at the same element through
        # another `iter().next()` - the table-hugging test - is a different key and does not count)
        argkeys = set()
        for st in res:
            v = st.vals.get(0)
            if v and v[0] == "callres" and callee(f.blocks[v[1]]["term"]) == f.path:
                argkeys |= {kk for kk, vv in st.disc.items()
                            if isinstance(vv, str) and vv in ("String", "TableConstructor") and kk != f"arg:{ai}"}
        nkeep = 0
        seen2 = set()
        for st in res:
            v = st.vals.get(0)
            if v and v[0] == "callres" and callee(f.blocks[v[1]]["term"]) == f.path:
                continue        # a converting path (judged above)
            k = _key_like(st, ".call_parentheses")
            cons = st.disc.get(k) if k else None
            # three-valued: a documented condition known to fail explains the kept parentheses; one that was never examined
            # (short-circuit after an extra, undocumented condition) does not
            is_input = (isinstance(cons, str) and cons == "Input")
            if is_input:
                continue
            nn = st.disc.get(f"arg:{ni}")
            if isinstance(nn, str) and nn == "ObscureWithoutParens":
                continue
            single = None
            for hk, hv in st.hist:
                if hk == "cmp":
                    op_, a_, b_, out_ = hv
                    side = b_ if (is_const(a_) and a_.get("v") == 1) else a_ if (is_const(b_) and b_.get("v") == 1) else None
                    if side is not None and op_ in ("Eq", "Ne") and \
                            any(c.endswith("::len") for c in prov_calls(provenance(f, side))):
                        holds = (op_ == "Eq" and out_) or (op_ == "Ne" and not out_)
                        single = holds if single is None else (single and holds)
                elif isinstance(hk, str) and hk.startswith("int:"):
                    kb = hk[4:].split(".")[0]
                    if kb.startswith("call:") and callee(f.blocks[int(kb[5:])]["term"]).endswith("len"):
                        holds = hv == ("int", 1)
                        single = holds if single is None else (single and holds)
            if single is False:
                continue
            # `match arguments.len() { 1 => arguments.iter().next(), .. }`: with exactly one argument established, a path on which
            # that `next()` (or a filter over it) answered None does not exist
            if any(vv == "None" and re.match(r"call:\d+$", kk) and
                   re.search(r"Iterator>::next$|Option::<.*>::filter$", callee(f.blocks[int(kk[5:])]["term"]))
                   for kk, vv in st.disc.items()):
                continue
            for kind, pred in (("String", "should_omit_string_parens"), ("TableConstructor", "should_omit_table_parens")):
                omit = [dec for cb, dec in st.decisions.items() if callee(f.blocks[cb]["term"]).endswith(pred)]
                if not omit or not all(omit):
                    continue
                looked = {kk: st.disc[kk] for kk in argkeys if kk in st.disc}
                is_kind = any(vv == kind for vv in looked.values())
                nkeep += 1
                sig = (kind, bool(looked), is_kind)
                if sig in seen2:
                    continue
                seen2.add(sig)
                ok = bool(looked) and not is_kind
                rep.inst(f"{f.key} [Parentheses kept, {pred} holds] argument examined={bool(looked)} is-{kind}={is_kind}", None, cfg, ok=ok)
                if not ok:
                    rep.violation(f"{f.key} [Parentheses kept] {pred}=True no-documented-condition-fails argument-examined={bool(looked)} is-{kind}={is_kind}",
                                  f"format_function_args keeps the parentheses on a path where {pred} holds and none of the documented "
                                  f"conditions (call_parentheses == Input, more than one argument, an index / method call follows) is "
                                  f"known to fail, "
                                  f"{'without looking at the kind of the argument' if not looked else 'although the argument is a ' + kind}: "
                                  f"something other than the documented conditions (layout, width, comments) decides whether "
                                  f"`f(\"x\")` becomes `f \"x\"`, so the option is not honoured for every call", f.loc(), cfg)
        rep.floor("non-converting paths with every documented condition established", nkeep, 1, cfg)
        # the single argument is kept: the aggregate's payload derives from `arguments` of the Parentheses
        for b, si_, s in f.stmts():
            if s["k"] == "assign" and s["rv"]["k"] == "agg" and s["rv"].get("adt", "").endswith("FunctionArgs") and \
                    s["rv"].get("variant") in ("String", "TableConstructor") and s["dst"]["l"] != 0:
                pr = provenance(f, s["rv"]["ops"][0], through=re.compile(
                    PROV_THROUGH.pattern + r"|UpdateTrailingTrivia>::update_trailing_trivia$|UpdateLeadingTrivia>::update_leading_trivia$|::next$|::iter$|Option::<.*>::filter$"))
                calls = prov_calls(pr)
                args = {r[1] for r in pr if r[0] == "arg"}
                # either the arm's own payload (arg) or the single argument of the parenthesised list
                ok = args == {ai} and not {c for c in calls if "format_" in c}
                rep.inst(f"{f.key} sugar-payload-is-the-argument {s['rv']['variant']}", None, cfg, ok=ok)
                if not ok:
                    rep.violation(f"{f.key} sugar-payload {s['rv']['variant']}",
                                  f"the {s['rv']['variant']} call-sugar node is not built from the call's own argument "
                                  f"({sorted(map(str, pr))[:4]})", f.loc(s["sp"]), cfg)
        # who builds FunctionArgs: only format_function_args, stmt_block, trivia impls
        builders = set()
        for g in prog.fns("stylua_lib"):
            for b, si_, s in g.stmts():
                if s["k"] == "assign" and s["rv"]["k"] == "agg" and s["rv"].get("adt") == "full_moon::ast::FunctionArgs":
                    builders.add(g.path)
        allowed = re.compile(r"^formatters::functions::format_function_args$|::stmt_block::|^<full_moon::ast::FunctionArgs as|"
                             r"^<verify_ast|^verify_ast")
        # a private helper whose every call site is inside an allowed builder is part of that builder
        def only_called_from_allowed(b):
            sites = [g.path for g, bb, t in call_sites(prog, "^" + re.escape(b) + "$", "stylua_lib")]
            return bool(sites) and all(allowed.search(x) for x in sites)
        extra = sorted(b for b in builders if not allowed.search(b) and not only_called_from_allowed(b))
        rep.inst("stylua_lib FunctionArgs constructors", {"builders": sorted(builders)}, cfg, ok=not extra)
        for b in extra:
            rep.violation(f"stylua_lib::{b} builds-FunctionArgs",
                          f"{b} constructs FunctionArgs outside format_function_args: a layout path that bypasses the "
                          f"call_parentheses decision", None, cfg)
    return rep


def rule_lookahead(ctx, prop):
    """the producer side of `obscure without parentheses`: what format_function_call tells format_suffix about the suffix
    that follows a call"""
    rep = Report(prop, "R-OPT(lookahead)", "format_function_call reports ObscureWithoutParens to format_suffix whenever the next "
                                           "suffix is an index of any kind or a method call, and None otherwise")
    for cfg, prog in ctx.programs.items():
        f = prog.fn("stylua_lib", "formatters::functions::format_function_call")
        if not rep.anchor(f is not None, "format_function_call", cfg):
            continue
        obs, non = [], []
        for b, si_, s in f.stmts():
            if s["k"] == "assign" and s["rv"]["k"] == "agg" and s["rv"].get("adt", "").endswith("FunctionCallNextNode") and not s["rv"]["ops"]:
                (obs if s["rv"]["variant"] == "ObscureWithoutParens" else non).append(b)
        if not rep.anchor(bool(obs) and bool(non), "both FunctionCallNextNode answers in format_function_call", cfg):
            continue
        merge = {b for b, t in f.calls() if callee(t).endswith("format_suffix")}
        def answers(frm):
            """which answers can follow the edge `frm`, with constant booleans (`matches!`) followed branch by branch"""
            out = set()
            seen = set()
            work = [(frm, ())]
            while work:
                b, env = work.pop()
                if (b, env) in seen or b in merge or len(seen) > 4000:
                    continue
                seen.add((b, env))
                e = dict(env)
                if b in obs:
                    out.add("O")
                    continue
                if b in non:
                    out.add("N")
                    continue
                for s_ in f.blocks[b]["st"]:
                    if s_["k"] == "assign" and not s_["dst"].get("p"):
                        rv = s_["rv"]
                        if rv["k"] == "use" and is_const(rv["o"]) and isinstance(rv["o"].get("v"), bool):
                            e[s_["dst"]["l"]] = rv["o"]["v"]
                        elif rv["k"] == "use" and not is_const(rv["o"]) and not op_place(rv["o"]).get("p") and op_place(rv["o"])["l"] in e:
                            e[s_["dst"]["l"]] = e[op_place(rv["o"])["l"]]
                        else:
                            e.pop(s_["dst"]["l"], None)
                t = f.blocks[b]["term"]
                env2 = tuple(sorted(e.items()))
                if t["k"] == "switch" and t["ty"] == "bool" and op_local(t["on"]) in e and not op_place(t["on"]).get("p"):
                    val = e[op_local(t["on"])]
                    fl = [bb for v, bb in t["targets"] if v == 0]
                    work.append(((t["otherwise"] if val else fl[0]) if fl else t["otherwise"], env2))
                    continue
                for nb in f.term_succ(b):
                    work.append((nb, env2))
            return ("O" if "O" in out else "") + ("N" if "N" in out else "")
        # the match on the next suffix: a switch on a Suffix obtained from peek() one of whose edges is answered
        # ObscureWithoutParens; the nearest one to the answers
        cands = []
        for b in range(len(f.blocks)):
            si = switch_info(f, b)
            if si and si["enum"].endswith("ast::Suffix") and \
                    any(c.endswith("::peek") for c in prov_calls(provenance(f, {"cp": si["place"]}))):
                edges = [bb for bb in list(si["targets"].values()) + [si["otherwise"]] if bb is not None]
                if any("O" in answers(bb) for bb in edges):
                    cands.append((len(f.dominators().get(b, ())), b, si))
        last = [c for c in cands if not any(o[1] != c[1] and o[1] in f.reach_from(c[1], avoid=merge) for o in cands)]
        if len(last) != 1:
            # the look-ahead is written in a form this rule does not read (closure, helper returning the enum, ..):
            # nothing is claimed for this configuration rather than raising an alarm on a shape
            rep.notes.append(f"[{cfg}] look-ahead of format_function_call not in switch form: clause not evaluated")
            continue
        _, sb, si = last[0]
        ti = si["targets"].get("Index")
        tc = si["targets"].get("Call")
        problems = []
        if ti is None:
            problems.append(("Index", "not distinguished"))
        else:
            a = answers(ti)
            if a != "O":
                problems.append(("Index", "can be answered None" if "N" in a else "never answered ObscureWithoutParens"))
        if tc is None:
            problems.append(("Call", "not distinguished"))
        else:
            inner = None
            for b in sorted(f.reach_from(tc, avoid=merge)):
                s2 = switch_info(f, b)
                if s2 and s2["enum"].endswith("ast::Call"):
                    inner = s2
                    break
            if inner is None or inner["targets"].get("MethodCall") is None:
                problems.append(("Call::MethodCall", "not distinguished"))
            else:
                a = answers(inner["targets"]["MethodCall"])
                if a != "O":
                    problems.append(("Call::MethodCall", "can be answered None"))
                oth = [bb for v, bb in inner["targets"].items() if v != "MethodCall"] + [inner["otherwise"]]
                if not any("N" in answers(bb) for bb in oth if bb is not None):
                    problems.append(("Call::AnonymousCall", "never answered None"))
        # the answer None may only be given after the next suffix was looked at: the peek() that feeds the match dominates
        # every None answer (no other condition - layout, width - may short-circuit the question)
        peeks = [b for b, t in f.calls() if callee(t).endswith("::peek") and sb in f.reach_from(b, avoid=merge) and f.dominates(b, sb)]
        if peeks:
            pk = max(peeks, key=lambda b: len(f.dominators().get(b, ())))
            for x in non:
                if not f.dominates(pk, x):
                    problems.append(("suffix", "answered None without looking at it (another condition decides first)"))
                    break
        rep.inst(f"{f.key} look-ahead table: Index(*) | MethodCall -> Obscure, else None", None, cfg, ok=not problems)
        for what, why in problems:
            rep.violation(f"{f.key} next-suffix-lookahead {what} {why.replace(' ', '-')}",
                          f"format_function_call: a following {what} suffix is {why}: under call_parentheses = None / NoSingleString / "
                          f"NoSingleTable the parentheses of `f(\"s\")[1]` / `f({{}}):m()` are dropped although an index or method "
                          f"call follows (or are kept where the option says to drop them)", f.loc(), cfg)
    return rep


def rule_measurement_only(ctx, prop):
    """format_function_call formats every suffix once with FunctionCallNextNode::None just to measure the flat chain: that copy
    knows nothing about what follows each call, so it must never become the output"""
    rep = Report(prop, "R-OPT(measure)", "in format_function_call, a suffix formatted with the constant FunctionCallNextNode::None (no look-ahead) "
                                         "is used for measuring only: its value never flows to the function's return value")
    SUFFIX_FMT = re.compile(r"formatters::(functions|expression)::(format_suffix|format_call|format_method_call|format_function_args)$")
    SKIP_TY = re.compile(r"^(bool|usize|u\d+|i\d+|\(\)|std::string::String|shape::Shape|&?str)$")
    for cfg, prog in ctx.programs.items():
        f = prog.fn("stylua_lib", "formatters::functions::format_function_call")
        if not rep.anchor(f is not None, "format_function_call", cfg):
            continue
        fam = [f] + [g for g in prog.fns("stylua_lib") if g.path.startswith(f.path + "::{closure")]

        def const_none(g, o):
            if is_const(o):
                return o.get("variant") == "None" or "None" in str(o.get("pp", ""))
            pr = provenance(g, o, through=None)
            return bool(pr) and all((r[0] == "agg" and r[1].endswith("FunctionCallNextNode::None")) or
                                    (r[0] == "const" and "None" in r[1]) for r in pr)
        starts = []
        for g in fam:
            for b, t in g.calls():
                if not SUFFIX_FMT.search(callee(t)):
                    continue
                nn = [a for a in t["args"] if (is_const(a) and "FunctionCallNextNode" in str(a.get("ty", ""))) or
                      (not is_const(a) and g.local_ty(op_place(a)["l"]).endswith("FunctionCallNextNode"))]
                if not nn or not all(const_none(g, a) for a in nn):
                    continue
                if g is f:
                    if t.get("dst") and not t["dst"].get("p"):
                        starts.append((t["dst"]["l"], f.loc(t["sp"])))
                else:
                    # the closure's value in the enclosing function: what the adaptor it is handed to produces
                    for b2, si_, s in f.stmts():
                        if s["k"] == "assign" and s["rv"]["k"] == "agg" and s["rv"].get("closure") == g.path:
                            starts.append((s["dst"]["l"], g.loc(t["sp"])))
        if not starts:
            rep.note(f"@{cfg}: no suffix is formatted with a constant None in format_function_call (clause not evaluated)")
            continue
        for l0, where in starts:
            seen, work, reaches = set(), [l0], False
            while work:
                l = work.pop()
                if l in seen:
                    continue
                seen.add(l)
                for u in forward_uses(f, l):
                    if u[0] == "ret":
                        reaches = True
                    elif u[0] == "agg":
                        work.append(u[2]["dst"]["l"])
                    elif u[0] == "call":
                        d = u[2].get("dst")
                        if d and not d.get("p") and not SKIP_TY.search(f.local_ty(d["l"])):
                            if d["l"] == 0:
                                reaches = True
                            else:
                                work.append(d["l"])
                    elif u[0] == "field":
                        work.append(u[2]["dst"]["l"])
            rep.inst(f"{f.key} suffixes formatted without look-ahead are measured, not returned", {"at": where, "locals_followed": len(seen)}, cfg, ok=not reaches)
            if reaches:
                rep.violation(f"{f.key} measurement-copy-returned",
                              "format_function_call returns the call chain whose suffixes were formatted with FunctionCallNextNode::None (the "
                              "copy made for measuring its width): no call in it was told that an index or method call follows, so under "
                              "call_parentheses = None / NoSingleString / NoSingleTable `f(\"x\"):m()` comes out as `f \"x\":m()`",
                              f.loc(), cfg)
    return rep
