"""C20 An option means the same thing wherever it is written - static necessary conditions."""
import r_cfg

EXPLANATION = (
    "ADT facts + MIR of the three carriers in every feature configuration: (a) the flag enums and the config enums "
    "have equal variant sets and their From conversions are total and name preserving in both directions; the "
    "command-line spelling and the stylua.toml spelling of every value equal the variant name (case-insensitively "
    "for flags, ignore_case = true is present on all 7 enum flags); (b) load_overrides reads every FormatOpts field "
    "and writes the Config field of the same name, and every Config field except the deprecated "
    "no_call_parentheses has an override; (c) the derived Deserialize of Config/SortRequiresConfig contains the "
    "unknown_field error and knows exactly the struct's field names, and read_config_file propagates the error; "
    "(d) editorconfig::load maps each property value to the Config field/value of the documented option, keys and "
    "spellings as documented. Not decided: byte-identical output (behavioural), README wording."
    "Later rounds: (R-EC(path)) the path handed to editorconfig::parse names a (pseudo) file, never the searched directory; (R-EC(per-file)) the Config derived from EditorConfig is never stored in the resolver; (R-CFGERR). Rounds 17-19: (R-CFG(b) path clause).")
ASSUMPTIONS = ["serde/toml/clap/ec4rs behave as documented; derive expansions are read from MIR",
               "the EditorConfig mapping table in r_cfg.EC_TABLE restates the documented meaning of each key",
               "rustc MIR and Instance::try_resolve are trusted"]


def run(ctx):
    return [r_cfg.rule_convert(ctx, "C20"), r_cfg.rule_overrides(ctx, "C20"), r_cfg.rule_deny_unknown(ctx, "C20"),
            r_cfg.rule_editorconfig(ctx, "C20"), r_cfg.rule_override_last(ctx, "C20"), r_cfg.rule_config_errors(ctx, "C20"), r_cfg.rule_ec_path(ctx, "C20"), r_cfg.rule_ec_per_file(ctx, "C20")]
