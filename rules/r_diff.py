"""R-DIFF*: structural clauses of C18 (the diffs printed by --check reconstruct the formatted file).

What `similar` computes (which lines are equal) is not decided here - that is a numeric question about runtime texts.
What is decided is everything StyLua's own code adds on top of `similar`, and all of it is visible in the MIR:

  R-DIFFARGS   the (original, formatted) pair keeps its order on the whole way: callers of create_diff pass the
               formatter's result as `expected` and never as `original`; create_diff hands (original, expected) to every
               producer in that order; every producer builds its TextDiff as from_lines(old, new).
  R-DIFFNONE   every producer answers `no difference` through a recognised exact test (emptiness of grouped ops, all
               ops Equal, string equality) with the right polarity - a frozen idiom table, each entry confirmed by reading.
  R-DIFFJSON   for every non-Equal DiffOp arm of output_diff_json: exactly one mismatch is pushed on every path; the
               line numbers are the linear forms index / index+len-1 of the op's own fields on the side that has lines
               and [index, index] on the empty side; the text of a side that has lines is the collection of *all* changes
               of the op (filtered by the matching tag where the op carries both), and "" on the empty side; neither loop
               can be left early.
  R-DIFFUNI    output_diff_unified writes the Display of `unified_diff()` of from_lines(old, new) - with the
               missing-newline hint untouched - into the very buffer it returns.
  R-DIFFSUMMARY the Summary arm of create_diff prints `<file_name>\\n` exactly when original != expected.
"""
from engine import Report
from facts import *
from paths import *
import symstr

PRODUCERS = r"^output_diff::(output_diff|output_diff_unified|output_diff_json)$"
ADAPTERS = re.compile(r"(::iter$|IntoIterator>::into_iter$|Iterator::enumerate$|Iterator::peekable$|Peekable<.*>::peek$|"
                      r"Peekable::<I>::peek$|Iterator::by_ref$|Deref>::deref$|::as_slice$|Vec::<.*>::as_slice$|Clone>::clone$)")
FIRST_ONLY = re.compile(r"Iterator::(next|nth|last|take|skip|step_by|take_while|skip_while|find|min|max|min_by|max_by|"
                        r"next_back|nth_back)$|Iterator>::(next|nth|last)$")


def _view(prog):
    import r_cli
    return r_cli._view(prog)


def _arg_root(f, o):
    """the parameter an operand is (a reborrow of), or None"""
    try:
        root, steps = access_path(f, o)
    except Exception:
        return None
    if root[0] == "arg" and not [s for s in steps if s[0] == "f"]:
        return root[1]
    return None


def _chain(f, o, depth=0):
    """receiver chain of an operand: list of (callee, block) from the outermost call back through arg0; ends at a
    parameter ('arg', n) or an unknown root ('?',)"""
    out = []
    cur = o
    for _ in range(16):
        if is_const(cur):
            out.append(("?", ["const"]))
            return out
        try:
            root, steps = access_path(f, cur)
        except Exception:
            root, steps = ("?",), ()
        fsteps = [s for s in steps if s[0] == "f" or s[0] == "v"]
        if root[0] == "arg" and not fsteps:
            out.append(("arg", root[1]))
            return out
        if root[0] == "call" and not fsteps:
            bi = root[1]
        else:
            rs = [r for r in provenance(f, cur, through=None, into_aggs=False) if r[0] != "const"]
            calls = [r for r in rs if r[0] == "call"]
            if len(rs) != 1 or len(calls) != 1:
                out.append(("?", sorted(str(r[:2]) for r in rs)))
                return out
            bi = calls[0][2]
        t = f.blocks[bi]["term"]
        out.append((callee(t), bi))
        if not t["args"]:
            return out
        cur = t["args"][0]
    return out


def _from_lines_ok(f, bi):
    """from_lines(arg1, arg2)"""
    t = f.blocks[bi]["term"]
    return len(t["args"]) >= 2 and _arg_root(f, t["args"][0]) == 1 and _arg_root(f, t["args"][1]) == 2


def _textdiff_of(f, o):
    """block of the from_lines call an operand (a &TextDiff) goes back to, or None"""
    ch = _chain(f, o)
    for c in ch:
        if c[0].endswith("::from_lines"):
            return c[1]
        if c[0] in ("arg", "?"):
            return None
        if not ADAPTERS.search(c[0]):
            return None
    return None


# ---------------------------------------------------------------------------------------------------------------
def rule_args(ctx, prop):
    rep = Report(prop, "R-DIFFARGS", "the (original, formatted) pair keeps its order from format_code's result down to "
                                     "TextDiff::from_lines(old, new)")
    for cfg, prog in ctx.programs.items():
        prog = _view(prog)
        # (a) callers of create_diff
        sites = list(call_sites(prog, r"(^|::)create_diff$", "stylua"))
        for f, b, t in sites:
            exp = prov_calls(provenance(f, t["args"][2]))
            org = prov_calls(provenance(f, t["args"][1]))
            e_ok = any(re.search(r"(^|::)format_code$", c) for c in exp)
            o_ok = not any(re.search(r"(^|::)format_code$", c) for c in org)
            # `original` is the text as it was read (file contents / stdin), not a trimmed or otherwise rewritten copy:
            # what --check compares must be what a plain run would compare before writing
            import r_cfg
            deep = r_cfg._deep_calls(f, t["args"][1])
            rewritten = sorted(c for c in deep if re.search(r"<impl str>::(strip_prefix|strip_suffix|trim[a-z_]*|replace[a-z_]*|split[a-z_]*|get|"
                                                           r"to_lowercase|to_uppercase)$|::strip_prefix$|::trim_start_matches$|"
                                                           r"String::(replace_range|truncate|drain|remove)$|ops::Index", c))
            if rewritten and o_ok:
                rep.inst(f"{f.key} create_diff(original = the text as read)", {"through": [c.split("::")[-1] for c in rewritten]}, cfg, ok=False)
                rep.violation(f"{f.key} create_diff-original-rewritten via={','.join(c.split('::')[-1] for c in rewritten)[:40]}",
                              f"{f.path} hands create_diff an `original` that went through {[c.split('::')[-1] for c in rewritten]}: "
                              f"--check compares a rewritten copy of the file with the formatted text and reports `no difference` "
                              f"(exit 0) for a file that a plain run would rewrite", f.loc(t["sp"]), cfg)
            rep.inst(f"{f.key} create_diff(original, expected=format_code(..))", {"at": f.loc(t["sp"])}, cfg, ok=e_ok and o_ok)
            if not (e_ok and o_ok):
                rep.violation(f"{f.key} create_diff-arguments-swapped",
                              f"{f.path} calls create_diff with the formatter's result as `original` or without it as "
                              f"`expected`: the printed diff turns the formatted text back into the file, not the file "
                              f"into the formatted text", f.loc(t["sp"]), cfg)
        rep.floor("call sites of create_diff", len(sites), 2, cfg)
        # (b) create_diff -> producers
        cd = prog.fn("stylua", "create_diff")
        if not rep.anchor(cd is not None, "stylua::create_diff", cfg):
            continue
        n = 0
        for b, t in cd.calls():
            c = callee(t)
            if re.search(PRODUCERS, c):
                n += 1
                ok = _arg_root(cd, t["args"][0]) == 2 and _arg_root(cd, t["args"][1]) == 3
                rep.inst(f"create_diff -> {c.split('::')[-1]}(original, expected)", {"at": cd.loc(t["sp"])}, cfg, ok=ok)
                if not ok:
                    rep.violation(f"stylua::create_diff producer-arguments-swapped {c.split('::')[-1]}",
                                  f"create_diff does not pass (original, expected) in that order to {c}: the diff of that "
                                  f"output format is reversed", cd.loc(t["sp"]), cfg)
        rep.floor("diff producers called by create_diff", n, 3, cfg)
        # (c) producers -> from_lines
        m = 0
        for f in prog.fns("stylua"):
            if not re.search(PRODUCERS, f.path):
                continue
            for b, t in f.calls():
                if callee(t).endswith("::from_lines") or re.search(r"TextDiff.*::from_(lines|words|chars|slices|unicode_words|graphemes)$", callee(t)):
                    m += 1
                    ok = callee(t).endswith("::from_lines") and _from_lines_ok(f, b)
                    rep.inst(f"{f.key} TextDiff::from_lines(old, new)", {"at": f.loc(t["sp"])}, cfg, ok=ok)
                    if not ok:
                        rep.violation(f"{f.key} textdiff-not-from_lines(old,new)",
                                      f"{f.path} builds its TextDiff from something else than from_lines(old, new): "
                                      f"the diff is reversed or not line based, and applying it does not give the "
                                      f"formatted text", f.loc(t["sp"]), cfg)
        rep.floor("TextDiff constructions in the producers", m, 3, cfg)
    return rep


# ---------------------------------------------------------------------------------------------------------------
def _ret_kind(f, st):
    """'None' / 'Some' / 'Err' / None for the value a path returns (Option<..> or Result<Option<..>>)"""
    v0 = st.vals.get(0)
    if not v0:
        return None
    if v0[0] == "variant" and v0[1].endswith("Option") and v0[2] == "None":
        return "None"
    if v0[0] == "agg" and v0[1].endswith("Option") and v0[2] == "Some":
        return "Some"
    if v0[0] == "agg" and v0[1].endswith("Result"):
        if v0[2] == "Err":
            return "Err"
        bi = v0[3]
        for s in f.blocks[bi]["st"]:
            if s["k"] == "assign" and s["dst"]["l"] == 0 and s["rv"]["k"] == "agg":
                o = s["rv"]["ops"][0]
                if is_const(o):
                    return None
                l = op_place(o)["l"]
                last = None
                for tb in st.trail:
                    for s2 in f.blocks[tb]["st"]:
                        if s2["k"] == "assign" and s2["dst"]["l"] == l and not s2["dst"].get("p"):
                            last = s2
                if last is None:
                    return None
                rv = last["rv"]
                if rv["k"] == "agg" and rv.get("adt", "").endswith("Option"):
                    return rv["variant"]
                if rv["k"] == "use" and not is_const(rv["o"]):
                    return "Some?"
        return None
    return None


def _closure_variant_table(prog, f, o):
    """for a closure operand taking a &DiffOp: (set of variants answered true, complete?)"""
    g = _closure_fn(prog, f, o)
    if g is None:
        return None
    try:
        res = Enumerator(g, summaries=False, max_paths=2000).run()
    except TooManyPaths:
        return None
    true_v, false_v = set(), set()
    for st in res:
        v0 = st.vals.get(0)
        if not (v0 and v0[0] == "const" and isinstance(v0[1], bool)):
            return None
        vs = [v for k, v in st.hist if isinstance(v, str) and v in ("Equal", "Delete", "Insert", "Replace")]
        nots = [v for k, v in st.hist if isinstance(v, tuple) and v and v[0] == "not"]
        tgt = true_v if v0[1] else false_v
        if vs:
            tgt.add(vs[-1])
        elif nots:
            tgt.add(("not", frozenset(nots[-1][1])))
        else:
            tgt.add("*")
    return true_v, false_v


ALL4 = {"Equal", "Delete", "Insert", "Replace"}


def _expand(vs):
    out = set()
    for v in vs:
        if v == "*":
            out |= ALL4
        elif isinstance(v, tuple):
            out |= ALL4 - set(v[1])
        else:
            out.add(v)
    return out


def rule_none(ctx, prop):
    rep = Report(prop, "R-DIFFNONE", "every diff producer answers `no difference` through a recognised exact test with the "
                                     "right polarity (grouped ops empty / all ops Equal / strings equal)")
    for cfg, prog in ctx.programs.items():
        prog = _view(prog)
        targets = [f for f in prog.fns("stylua") if re.search(PRODUCERS, f.path)]
        cd = prog.fn("stylua", "create_diff")
        if cd is not None:
            targets.append(cd)
        if not rep.anchor(len(targets) >= 4, f"diff producers + create_diff ({len(targets)})", cfg):
            continue
        nprod = 0
        for f in targets:
            try:
                res = Enumerator(f, summaries=False, max_paths=20000).run()
            except TooManyPaths:
                rep.anchor(False, f"{f.key}: too many paths", cfg)
                continue
            rows = []
            for st in res:
                k = _ret_kind(f, st)
                if k in ("None", "Some"):
                    rows.append((k, dict((h[0], h[1]) for h in st.hist if h[0].startswith("dec:"))))
            nones = [d for k, d in rows if k == "None"]
            somes = [d for k, d in rows if k == "Some"]
            if not rep.anchor(bool(nones) and bool(somes), f"{f.key}: has paths returning None and paths returning Some", cfg):
                continue
            nprod += 1
            # every path returning None passed a recognised exact test that answered `equal`; every path returning a
            # diff passed one that answered `different`; no recognised-but-inexact test may answer `equal`
            memo = {}

            def verdict(key, when_none):
                if (key, when_none) not in memo:
                    bi = int(key.split(":")[1])
                    t = f.blocks[bi]["term"]
                    memo[(key, when_none)] = _judge(prog, f, bi, t, callee(t), when_none)
                return memo[(key, when_none)]
            problems = []
            used = set()
            for kind, ds in (("None", nones), ("Some", somes)):
                for d in ds:
                    vs = [verdict(k, v if kind == "None" else (not v)) for k, v in d.items()]
                    good = [v for v in vs if v[0] == "ok"]
                    bad = [v for v in vs if v[0] == "bad"]
                    if good and not bad:
                        used.add(good[0][1])
                        continue
                    if bad:
                        problems.append((bad[0][1], bad[0][2]))
                    else:
                        by = sorted({callee(f.blocks[int(k.split(":")[1])]["term"]).split("::")[-1] for k in d}) or ["nothing"]
                        problems.append(("unrecognised", f"a path returning {'no diff' if kind == 'None' else 'a diff'} is decided by "
                                                         f"{by}, none of which is a recognised exact test of the two texts"))
            ok = not problems
            rep.inst(f"{f.key} no-difference decided by {sorted(used) or '?'}", {"paths": len(rows)}, cfg, ok=ok)
            if not ok:
                what, why = sorted(set(problems))[0]
                rep.violation(f"{f.key} no-difference-test-not-exact {what}",
                              f"{f.path} answers `no difference`: {why}; `--check` then stays silent for a file that is "
                              f"not formatted, or prints a diff for one that is", f.loc(), cfg)
        rep.floor("producers with a decided no-difference test", nprod, 4, cfg)
    return rep


def _judge(prog, f, bi, t, c, when_none):
    """-> ('ok'|'bad'|'unknown', label, reason)"""
    short = c.split("::")[-1]
    if re.search(r"PartialEq.*::(eq|ne)$", c):
        a, b = _arg_root(f, t["args"][0]), _arg_root(f, t["args"][1])
        base = 1 if f.path == "create_diff" else 0
        if {a, b} != {1 + base, 2 + base}:
            return ("bad", f"{short}-of-other-values", "the compared values are not the two texts")
        want = short == "eq"
        return ("ok", f"str-{short}", "") if when_none == want else ("bad", f"str-{short}-polarity", "the polarity of the string comparison is inverted")
    if re.search(r"Iterator::(eq|ne|eq_by|cmp|partial_cmp)$", c):
        chs = [_chain(f, a) for a in t["args"][:2]]
        names = sorted({str(x[0]).split("::")[-1] for ch in chs for x in ch if x[0] not in ("arg", "?")})
        return ("bad", f"{short}-over-{'+'.join(names) or 'iterators'}",
                f"the texts are compared piecewise through {names} (e.g. `lines()` drops the line terminators and a missing "
                f"final newline), not as whole strings")
    if re.search(r"::is_empty$", c) or re.search(r"Option::<.*>::is_(none|some)$|Option::<T>::is_(none|some)$", c):
        ch = _chain(f, t["args"][0])
        names = [x[0] for x in ch]
        src = None
        for i, x in enumerate(ch):
            if re.search(r"TextDiff.*::(grouped_ops|ops)$", x[0]):
                src = (i, x)
                break
            if x[0] in ("arg", "?") or not ADAPTERS.search(x[0]):
                return ("bad", f"{short}-of-{x[0].split('::')[-1] if isinstance(x[0], str) else '?'}",
                        f"the test is applied to something derived through {x[0]} - not the plain list of changed groups")
        if src is None:
            return ("unknown", short, "")
        gb = src[1][1]
        gt = f.blocks[gb]["term"]
        fl = _textdiff_of(f, gt["args"][0])
        if fl is None or not _from_lines_ok(f, fl):
            return ("bad", f"{short}-of-foreign-diff", "the grouped operations do not belong to from_lines(old, new)")
        want = not short.endswith("is_some")
        if when_none != want:
            return ("bad", f"{short}-polarity", "the polarity of the emptiness test is inverted")
        return ("ok", f"{src[1][0].split('::')[-1]}.{short}", "")
    if re.search(r"Iterator::(all|any)$", c) or re.search(r"Iterator>::(all|any)$", c):
        ch = _chain(f, t["args"][0])
        src = None
        for x in ch:
            if re.search(r"TextDiff.*::ops$", x[0]):
                src = x
                break
            if x[0] in ("arg", "?") or not ADAPTERS.search(x[0]):
                return ("bad", f"{short}-over-{str(x[0]).split('::')[-1]}", f"the quantifier runs over something derived through {x[0]}")
        if src is None:
            return ("unknown", short, "")
        fl = _textdiff_of(f, f.blocks[src[1]]["term"]["args"][0])
        if fl is None or not _from_lines_ok(f, fl):
            return ("bad", f"{short}-of-foreign-diff", "the operations do not belong to from_lines(old, new)")
        tab = _closure_variant_table(prog, f, t["args"][1])
        if tab is None:
            return ("bad", f"{short}-closure-not-understood", "the predicate over the diff operations is not a plain match on the operation kind")
        tv, fv = _expand(tab[0]), _expand(tab[1])
        if short == "all":
            okc = tv == {"Equal"} and fv == ALL4 - {"Equal"} and when_none is True
        else:
            okc = tv == ALL4 - {"Equal"} and fv == {"Equal"} and when_none is False
        if not okc:
            return ("bad", f"{short}-predicate true-for={sorted(tv)}", f"`{short}` with a predicate true for {sorted(tv)} "
                    f"(no-difference when it answers {when_none}) is not `every operation is Equal`")
        return ("ok", f"ops.{short}(Equal)", "")
    return ("unknown", short, "")


# ---------------------------------------------------------------------------------------------------------------
def _lin(f, o, trail, depth=0):
    """linear form of a usize operand over the fields of the matched DiffOp: {('Replace','old_index'): 1, 1: -1}"""
    if depth > 12:
        return None
    if is_const(o):
        v = o.get("v")
        try:
            return {1: int(str(v).split("_")[0])}
        except Exception:
            return None
    pl = op_place(o)
    proj = pl.get("p", [])
    if proj:
        # (_36 as Variant).field   or  tuple.0 of a checked op
        vs = [e for e in proj if isinstance(e, dict) and "v" in e]
        fs = [e["f"] for e in proj if isinstance(e, dict) and "f" in e]
        if vs and fs:
            return {(str(vs[0]["v"]), str(fs[-1])): 1}
        if fs == ["0"] or fs == [0]:
            return _lin_local(f, pl["l"], trail, depth + 1)
        return None
    return _lin_local(f, pl["l"], trail, depth + 1)


def _lin_local(f, l, trail, depth):
    ds = [(b, s) for b, si_, s in f.stmts() if s["k"] == "assign" and s["dst"]["l"] == l and not s["dst"].get("p")
          and (trail is None or b in trail)]
    cs = [(b, t) for b, t in f.calls() if t["dst"]["l"] == l and not t["dst"].get("p") and (trail is None or b in trail)]
    if not ds and len(cs) == 1:
        # a small arithmetic helper (`fn last_line_index(index, len) -> usize`): its result as a linear form of its
        # parameters, with the arguments substituted
        t = cs[0][1]
        h = f.prog.fn(f.crate, callee(t))
        if h is None or h.kind == "Closure" or depth > 10:
            return None
        if 1 <= l <= 0:
            return None
        body = _lin(h, {"cp": {"l": 0}}, None, depth + 1)
        if body is None:
            return None
        out = {}
        for k, v in body.items():
            if k == 1:
                out[1] = out.get(1, 0) + v
            elif isinstance(k, tuple) and k[0] == "param":
                a = _lin(f, t["args"][k[1] - 1], trail, depth + 1)
                if a is None:
                    return None
                for k2, v2 in a.items():
                    out[k2] = out.get(k2, 0) + v * v2
            else:
                return None
        return {k: v for k, v in out.items() if v != 0}
    if not ds and not cs and 1 <= l <= f.argc:
        return {("param", l): 1}
    if len(ds) != 1:
        return None
    rv = ds[0][1]["rv"]
    if rv["k"] in ("use", "cast"):
        return _lin(f, rv["o"], trail, depth + 1)
    if rv["k"] == "binop" and rv["op"] in ("Add", "Sub", "AddWithOverflow", "SubWithOverflow", "AddUnchecked", "SubUnchecked"):
        a = _lin(f, rv["a"], trail, depth + 1)
        b = _lin(f, rv["b"], trail, depth + 1)
        if a is None or b is None:
            return None
        sign = 1 if rv["op"].startswith("Add") else -1
        out = dict(a)
        for k, v in b.items():
            out[k] = out.get(k, 0) + sign * v
        return {k: v for k, v in out.items() if v != 0}
    return None


def _text_form(prog, f, o, op_local, trail):
    """how a String operand of a mismatch is made: ('empty',) | ('all', tags-kept or None) | ('first',) | ('other', why)"""
    s = symstr.sym(f, o, trail, lambda f_, t_: False)
    if s is not None and all(p[0] == "lit" for p in s) and "".join(p[1] for p in s) == "":
        return ("empty",)
    rs = [r for r in provenance(f, o, through=None, into_aggs=False) if r[0] == "call" and (trail is None or r[2] in trail)]
    if len(rs) != 1:
        if not rs and any(r[0] == "call" and r[1].endswith("String::new") for r in provenance(f, o, through=None)):
            return ("empty",)
        return ("other", "not a single construction")
    bi = rs[0][2]
    t = f.blocks[bi]["term"]
    c = callee(t)
    if c.endswith("String::new"):
        return ("empty",)
    if re.search(r"ToString>?::to_string$|::to_owned$|Into<.*>>::into$|String::from$|From<.*>>::from$|Display.*::fmt$", c):
        # text of one value: a single change (first-only) or something else
        ch = _chain(f, t["args"][0])
        if any(isinstance(x[0], str) and FIRST_ONLY.search(x[0]) for x in ch):
            return ("first",)
        return ("other", f"text of {ch[0][0] if ch else '?'}")
    if not re.search(r"Iterator::collect$|Iterator>::collect$|Iterator::fold$|Itertools::join$|Iterator::sum$|::concat$", c):
        ch = _chain(f, o)
        if any(isinstance(x[0], str) and FIRST_ONLY.search(x[0]) for x in ch):
            return ("first",)
        return ("other", f"built by {c}")
    kept = None
    cur = t["args"][0]
    for _ in range(10):
        rs2 = [r for r in provenance(f, cur, through=None, into_aggs=False) if r[0] == "call"]
        if len(rs2) != 1:
            return ("other", "iterator chain not understood")
        b2 = rs2[0][2]
        t2 = f.blocks[b2]["term"]
        c2 = callee(t2)
        if re.search(r"TextDiff.*::iter_changes$", c2):
            # the op iterated must be the op matched
            if access_path(f, t2["args"][1]) != op_local:
                return ("other", "iterates the changes of another operation")
            fl = _textdiff_of(f, t2["args"][0])
            if fl is None or not _from_lines_ok(f, fl):
                return ("other", "iterates the changes of a foreign diff")
            return ("all", kept)
        if re.search(r"TextDiff.*::iter_all_changes$", c2):
            return ("other", "iterates the changes of the whole diff")
        if re.search(r"Iterator::map$", c2):
            ok = _map_closure_is_value(prog, f, t2["args"][1])
            if not ok:
                return ("other", "the mapped text is not the change's own value")
        elif re.search(r"Iterator::filter$", c2):
            tab = _tag_closure(prog, f, t2["args"][1])
            if tab is None:
                return ("other", "filter predicate not understood")
            kept = tab if kept is None else (kept & tab)
        elif FIRST_ONLY.search(c2) or re.search(r"Iterator::(take|skip|step_by|take_while|skip_while)$", c2):
            return ("first",)
        elif ADAPTERS.search(c2) or re.search(r"Iterator::(into_iter|by_ref|copied|cloned)$", c2):
            pass
        else:
            return ("other", f"iterator adapter {c2.split('::')[-1]}")
        cur = t2["args"][0]
    return ("other", "iterator chain too long")


def _closure_fn(prog, f, o):
    if is_const(o) and o.get("fn"):
        # a named function used as the predicate / mapper
        return prog.fn("stylua", o.get("rfn") or o["fn"]) or prog.fn("stylua", o["fn"])
    for r in provenance(f, o, through=None, into_aggs=False):
        if r[0] == "const" and r[1].startswith("fn:"):
            return prog.fn("stylua", r[1][3:])
        if r[0] == "agg" and r[1].startswith("closure "):
            cl = r[1][len("closure "):]
            return prog.fn("stylua", cl) or prog.fn("stylua", cl.split("stylua::", 1)[-1])
    return None


def _map_closure_is_value(prog, f, o):
    g = _closure_fn(prog, f, o)
    if g is None:
        return False
    cs = {callee(t) for b, t in g.calls()}
    return any(re.search(r"Change<.*>::(value|to_string_lossy|as_str)$|Change::<T>::(value|to_string_lossy|as_str)$", c) for c in cs) and \
        not any(re.search(r"trim|replace|strip|split|to_(upper|lower)", c.split("::")[-1]) for c in cs)


def _tag_closure(prog, f, o):
    """set of ChangeTag variants a filter closure keeps"""
    g = _closure_fn(prog, f, o)
    if g is None:
        return None
    if not any(re.search(r"Change<.*>::tag$|Change::<T>::tag$", callee(t)) for b, t in g.calls()):
        return None
    TAGS = {"Equal", "Delete", "Insert"}
    # `change.tag() == tag` with a captured (or constant) tag: the instance's captured operand decides
    for b, t in g.calls():
        m = re.search(r"PartialEq.*::(eq|ne)$", callee(t))
        if not m or t["dst"]["l"] != 0 or len(t["args"]) != 2:
            continue
        sides = []
        for a in t["args"]:
            rs = provenance(g, a, through=None)
            if any(r[0] == "call" and re.search(r"Change<.*>::tag$|Change::<T>::tag$", r[1]) for r in rs):
                sides.append(("tag",))
            else:
                v = None
                for r in rs:
                    if r[0] == "agg" and "ChangeTag::" in r[1]:
                        v = r[1].split("::")[-1]
                    if r[0] == "upvar":
                        cops = None
                        for r2 in provenance(f, o, through=None, into_aggs=False):
                            if r2[0] == "agg" and r2[1].startswith("closure "):
                                for s_ in f.blocks[r2[2]]["st"]:
                                    if s_["k"] == "assign" and s_["rv"]["k"] == "agg" and "closure" in s_["rv"] and \
                                            ("closure " + s_["rv"]["closure"]) == r2[1]:
                                        cops = s_["rv"]["ops"]
                        try:
                            idx = int(r[1])
                        except (TypeError, ValueError):
                            idx = None
                        if cops is not None and idx is not None and idx < len(cops):
                            for r3 in provenance(f, cops[idx], through=None):
                                if r3[0] == "agg" and "ChangeTag::" in r3[1]:
                                    v = r3[1].split("::")[-1]
                sides.append(("val", v))
        vals = [x[1] for x in sides if x[0] == "val"]
        if ("tag",) in sides and len(vals) == 1 and vals[0] in TAGS:
            return frozenset({vals[0]}) if m.group(1) == "eq" else frozenset(TAGS - {vals[0]})
        return None
    try:
        res = Enumerator(g, summaries=False, max_paths=2000).run()
    except TooManyPaths:
        return None
    keep = set()
    for st in res:
        v0 = st.vals.get(0)
        if not (v0 and v0[0] == "const" and isinstance(v0[1], bool)):
            return None
        if not v0[1]:
            continue
        vs = [v for k, v in st.hist if isinstance(v, str) and v in TAGS]
        nots = [v for k, v in st.hist if isinstance(v, tuple) and v and v[0] == "not"]
        if vs:
            keep.add(vs[-1])
        elif nots:
            keep |= TAGS - set(nots[-1][1])
        else:
            keep |= TAGS
    return frozenset(keep)


SIDES = {  # variant -> (has old lines, has new lines)
    "Replace": (True, True), "Delete": (True, False), "Insert": (False, True)}


def rule_json(ctx, prop):
    rep = Report(prop, "R-DIFFJSON", "every non-Equal DiffOp arm of output_diff_json pushes one mismatch whose line numbers "
                                     "are index / index+len-1 of the op's own fields and whose texts hold every changed "
                                     "line of the op; the loops are never left early")
    for cfg, prog in ctx.programs.items():
        prog = _view(prog)
        f = prog.fn("stylua", "output_diff::output_diff_json")
        if not rep.anchor(f is not None, "stylua::output_diff::output_diff_json", cfg):
            continue
        # a local closure called directly (`let collect = |op, tag| ..; collect(&op, Delete)`) is analysed in place
        from inline import inlined
        f = inlined(prog, f, lambda c_, h_, t_: h_.kind == "Closure" and h_.path.startswith(c_.path + "::{closure"), allow_closures=True)
        adt = prog.adt("output_diff::DiffMismatch", "stylua")
        fields = [x["name"] if isinstance(x, dict) else x for x in (adt or {}).get("variants", [{}])[0].get("fields", [])] if adt else []
        want_fields = ["original_start_line", "original_end_line", "expected_start_line", "expected_end_line", "original", "expected"]
        if not rep.anchor(sorted(fields) == sorted(want_fields), f"DiffMismatch fields {fields}", cfg):
            continue
        fidx = {n: i for i, n in enumerate(fields)}
        # the switch on the op kind
        sw = [(b, switch_info(f, b)) for b in range(len(f.blocks)) if f.blocks[b]["term"]["k"] == "switch"]
        sw = [(b, si) for b, si in sw if si and si.get("enum", "").endswith("DiffOp")]
        if not rep.anchor(len(sw) >= 1, "match on the DiffOp kind", cfg):
            continue
        # loop heads: the blocks calling next() for the for loops
        reach = f.reachable()
        heads = sorted({b for b in reach for p_ in f.pred[b] if p_ in reach and f.dominates(b, p_)})
        rep.floor("for loops over groups and operations", len(heads), 2, cfg)
        narms = 0
        for b, si in sw:
            pl = si["place"]
            op_local = access_path(f, {"cp": pl})
            dom = f.dominators()
            inner = [h for h in heads if f.dominates(h, b)]
            inner = max(inner, key=lambda h: len(dom[h])) if inner else None
            for variant, tb in si["targets"].items():
                blocks0 = f.reach_from(tb, avoid=set(heads))
                frontier = {h for x in blocks0 for h in f.succ[x] if h in heads}
                rets0 = [x for x in blocks0 if f.blocks[x]["term"]["k"] == "return"]
                okl = frontier == {inner} and not rets0
                rep.inst(f"output_diff_json {variant} arm continues with the next operation", {"continues_at": sorted(frontier)}, cfg, ok=okl)
                if not okl:
                    rep.violation(f"{f.key} loop-left-early arm={variant}",
                                  f"the {variant} arm of output_diff_json does not continue with the next operation of the "
                                  f"group (it leaves the loop or returns): later mismatches are missing from the JSON output",
                                  f.loc(f.blocks[tb]["term"].get("sp")), cfg)
                if variant not in SIDES:
                    if variant == "Equal":
                        # must push nothing
                        blocks = f.reach_from(tb, avoid=set(heads))
                        pushes = [x for x in blocks if f.blocks[x]["term"]["k"] == "call" and callee(f.blocks[x]["term"]).endswith("::push")]
                        rep.inst("output_diff_json Equal arm records nothing", {}, cfg, ok=not pushes)
                    continue
                narms += 1
                blocks = f.reach_from(tb, avoid=set(heads))
                aggs = [(x, s) for x in sorted(blocks) for s in f.blocks[x]["st"]
                        if s["k"] == "assign" and s["rv"]["k"] == "agg" and s["rv"].get("adt", "").endswith("DiffMismatch")]
                pushes = [x for x in blocks if f.blocks[x]["term"]["k"] == "call" and callee(f.blocks[x]["term"]).endswith("::push")]
                ok1 = len(aggs) == 1 and len(pushes) == 1
                rep.inst(f"output_diff_json {variant} arm pushes one mismatch", {"aggregates": len(aggs), "pushes": len(pushes)}, cfg, ok=ok1)
                if not ok1:
                    rep.violation(f"{f.key} arm-does-not-push-one-mismatch arm={variant} n={len(pushes)}",
                                  f"the {variant} arm of output_diff_json builds {len(aggs)} mismatches and pushes {len(pushes)}: "
                                  f"a changed region is missing from (or doubled in) the JSON output", f.loc(), cfg)
                    continue
                # the push post-dominates the arm entry (within the iteration)
                ab, s = aggs[0]
                ops = s["rv"]["ops"]
                trail = set(blocks)
                has_old, has_new = SIDES[variant]
                exp = {
                    "original_start_line": {(variant, "old_index"): 1},
                    "original_end_line": {(variant, "old_index"): 1, (variant, "old_len"): 1, 1: -1} if has_old else {(variant, "old_index"): 1},
                    "expected_start_line": {(variant, "new_index"): 1},
                    "expected_end_line": {(variant, "new_index"): 1, (variant, "new_len"): 1, 1: -1} if has_new else {(variant, "new_index"): 1},
                }
                for name, want in exp.items():
                    got = _lin(f, ops[fidx[name]], trail)
                    ok = got == want
                    rep.inst(f"output_diff_json {variant}.{name} = {_show(want)}", {"got": _show(got)}, cfg, ok=ok)
                    if not ok:
                        rep.violation(f"{f.key} mismatch-line-number arm={variant} field={name} got={_show(got)}",
                                      f"the {variant} arm of output_diff_json reports {name} = {_show(got)} instead of "
                                      f"{_show(want)}: replacing the reported line range does not give the formatted text",
                                      f.loc(s["sp"]), cfg)
                for name, has, tag in (("original", has_old, "Delete"), ("expected", has_new, "Insert")):
                    form = _text_form(prog, f, ops[fidx[name]], op_local, trail)
                    if not has:
                        ok = form == ("empty",)
                        why = f"the side without lines must be the empty string, found {form}"
                    else:
                        if form[0] == "all":
                            kept = form[1]
                            if variant == "Replace":
                                ok = kept == frozenset({tag})
                                why = f"a Replace carries deletions and insertions: `{name}` must keep exactly the {tag} changes, keeps {sorted(kept) if kept else 'all'}"
                            else:
                                ok = kept is None or tag in kept
                                why = f"`{name}` filters out the {tag} changes"
                        else:
                            ok = False
                            why = {"first": f"`{name}` holds only the first changed line of the operation although the "
                                            f"reported range covers all its lines",
                                   "empty": f"`{name}` is empty although the operation has lines on that side"}.get(form[0], f"`{name}`: {form[1:] }")
                    rep.inst(f"output_diff_json {variant}.{name} text {form[0]}", {"form": [str(x) for x in form]}, cfg, ok=ok)
                    if not ok:
                        rep.violation(f"{f.key} mismatch-text arm={variant} field={name} form={form[0]}",
                                      f"the {variant} arm of output_diff_json: {why}; applying the JSON mismatches as "
                                      f"line-range replacements loses or invents lines", f.loc(s["sp"]), cfg)
        rep.floor("non-Equal DiffOp arms analysed", narms, 3, cfg)
    return rep


def _show(lf):
    if lf is None:
        return "?"
    parts = []
    for k, v in sorted(lf.items(), key=lambda kv: (kv[0] == 1, str(kv[0]))):
        nm = "1" if k == 1 else k[1]
        if k == 1:
            parts.append(f"{'+' if v > 0 else '-'}{abs(v)}")
        else:
            parts.append(("+" if v > 0 else "-") + (nm if abs(v) == 1 else f"{abs(v)}*{nm}"))
    return "".join(parts).lstrip("+") or "0"


# ---------------------------------------------------------------------------------------------------------------
def rule_unified(ctx, prop):
    rep = Report(prop, "R-DIFFUNI", "output_diff_unified writes the Display of unified_diff() of from_lines(old, new), "
                                    "missing-newline hint untouched, into the buffer it returns")
    for cfg, prog in ctx.programs.items():
        prog = _view(prog)
        f = prog.fn("stylua", "output_diff::output_diff_unified")
        if not rep.anchor(f is not None, "stylua::output_diff::output_diff_unified", cfg):
            continue
        uds = [(b, t) for b, t in f.calls() if re.search(r"TextDiff.*::unified_diff$", callee(t))]
        if not rep.anchor(len(uds) == 1, "one unified_diff() call", cfg):
            continue
        b, t = uds[0]
        fl = _textdiff_of(f, t["args"][0])
        ok = fl is not None and _from_lines_ok(f, fl)
        rep.inst("unified_diff() of from_lines(old, new)", {}, cfg, ok=ok)
        if not ok:
            rep.violation(f"{f.key} unified-diff-of-foreign-textdiff", "the unified diff is not computed from from_lines(old, new)", f.loc(t["sp"]), cfg)
        # builder calls on UnifiedDiff
        bad = []
        builders = []
        for b2, t2 in f.calls():
            c2 = callee(t2)
            m = re.search(r"UnifiedDiff.*::(\w+)$", c2)
            if m and "fmt" not in m.group(1):
                builders.append(m.group(1))
                if m.group(1) == "missing_newline_hint":
                    v = t2["args"][1] if len(t2["args"]) > 1 else None
                    if not (v is not None and is_const(v) and str(v.get("v")).startswith("true")):
                        bad.append("missing_newline_hint")
                elif m.group(1) not in ("header", "context_radius", "to_writer", "iter_hunks"):
                    bad.append(m.group(1))
        rep.inst(f"UnifiedDiff builder calls {sorted(set(builders))}", {}, cfg, ok=not bad)
        for x in bad[:1]:
            rep.violation(f"{f.key} unified-diff-option {x}",
                          f"output_diff_unified configures the unified diff with {x}: without the `\\ No newline at end of "
                          f"file` marker a file lacking its final newline cannot be reconstructed from the diff", f.loc(), cfg)
        # the Display argument written is the UnifiedDiff, and the buffer written is the one returned
        disp = [(b2, t2) for b2, t2 in f.calls() if callee(t2).endswith("new_display")]
        okd = False
        for b2, t2 in disp:
            ch = _chain(f, t2["args"][0])
            if any(isinstance(x[0], str) and re.search(r"::unified_diff$", x[0]) for x in ch):
                okd = True
        rep.inst("the UnifiedDiff itself is what gets written", {"display_args": len(disp)}, cfg, ok=okd)
        if not okd:
            rep.violation(f"{f.key} unified-diff-not-written", "the text written by output_diff_unified is not the Display of the unified diff", f.loc(), cfg)
        wf = [(b2, t2) for b2, t2 in f.calls() if re.search(r"Write>?::write_fmt$", callee(t2))]
        rep.floor("write_fmt calls in output_diff_unified", len(wf), 1, cfg)
    return rep


# ---------------------------------------------------------------------------------------------------------------
def rule_summary(ctx, prop):
    rep = Report(prop, "R-DIFFSUMMARY", "the Summary arm of create_diff prints `<file_name>\\n` exactly when original != expected")
    for cfg, prog in ctx.programs.items():
        prog = _view(prog)
        f = prog.fn("stylua", "create_diff")
        if not rep.anchor(f is not None, "stylua::create_diff", cfg):
            continue
        try:
            res = Enumerator(f, init_disc={"arg:1.output_format": "Summary"}, summaries=False, max_paths=5000).run()
        except TooManyPaths:
            rep.anchor(False, "create_diff: too many paths", cfg)
            continue
        n = 0
        for st in res:
            if _ret_kind(f, st) != "Some":
                continue
            n += 1
            v0 = st.vals.get(0)
            bi = v0[3]
            s = [s for s in f.blocks[bi]["st"] if s["k"] == "assign" and s["dst"]["l"] == 0][0]
            pieces = _payload(f, s["rv"]["ops"][0], set(st.trail))
            ok = pieces == [("arg", 4), ("lit", "\n")]
            rep.inst("create_diff Summary prints file_name + newline", {"pieces": [list(p) for p in pieces] if pieces else None}, cfg, ok=ok)
            if not ok:
                rep.violation(f"{f.key} summary-line-not-file-name got={pieces}",
                              f"the Summary arm of create_diff prints {pieces} instead of `<file_name>\\n`: the summary does "
                              f"not list exactly the differing files, one per line", f.loc(s["sp"]), cfg)
        rep.floor("Summary paths printing a file name", n, 1, cfg)
    return rep


def _payload(f, o, trail):
    """pieces of the byte string in Some(..): through into_bytes / format!"""
    def is_text(f_, t_):
        return False
    cur = o
    for _ in range(6):
        rs = [r for r in provenance(f, cur, through=None, into_aggs=True) if r[0] == "call" and r[2] in trail]
        hit = [r for r in rs if re.search(r"String::into_bytes$|::as_bytes$|::to_vec$|Into<.*>>::into$|From<.*>>::from$", r[1])]
        if hit:
            cur = f.blocks[hit[0][2]]["term"]["args"][0]
            break
        aggs = [r for r in provenance(f, cur, through=None, into_aggs=False) if r[0] == "agg"]
        if not aggs:
            break
        # Some(x): step into
        for b, si_, s in f.stmts():
            if b == aggs[0][2] and s["k"] == "assign" and s["rv"]["k"] == "agg" and s["rv"].get("adt", "").endswith("Option"):
                cur = s["rv"]["ops"][0]
    # format!("{file_name}\n")
    out = []
    rs = [r for r in provenance(f, cur, through=re.compile(r"hint::must_use$|fmt::format$")) if r[0] == "call" and r[2] in trail]
    news = [r for r in rs if r[1].endswith("Arguments::<'a>::new") or r[1].endswith("Arguments::new")]
    if len(news) != 1:
        return None
    t = f.blocks[news[0][2]]["term"]
    tmpl = None
    for rr in provenance(f, t["args"][0], through=None):
        if rr[0] == "const" and rr[1].startswith("pp:"):
            tmpl = symstr.decode_template(rr[1][3:])
    if tmpl is None:
        return None
    disp = [r for r in provenance(f, t["args"][1], through=None) if r[0] == "call" and r[1].endswith("new_display") and r[2] in trail]
    it = iter(sorted(disp, key=lambda r: r[2]))
    for p in tmpl:
        if p[0] == "lit":
            out.append(p)
        else:
            try:
                d = next(it)
            except StopIteration:
                return None
            a = _arg_root(f, f.blocks[d[2]]["term"]["args"][0])
            out.append(("arg", a))
    return out


VEC_MUTATORS = re.compile(r"Vec::<.*>::(pop|push|truncate|retain|retain_mut|drain|remove|swap_remove|clear|extend_from_slice|insert|"
                          r"append|split_off|dedup|resize|set_len|splice|as_mut_slice|iter_mut)$|Extend<.*>>::extend$|"
                          r"DerefMut>::deref_mut$|IndexMut<.*>>::index_mut$|<impl \[T\]>::(reverse|sort|fill|swap|copy_from_slice)$")
CARRIERS = re.compile(r"ops::Try>::branch$|FromResidual.*from_residual$|::with_context$|::context$|::map_err$|Option::<.*>::transpose$|"
                      r"Result::<.*>::transpose$|Result::<.*>::ok$|::unwrap$|::expect$|::unwrap_or_default$|Option::<.*>::(map|and_then|filter)$|"
                      r"Result::<.*>::(map|and_then)$|::into$|::from$")


def _byte_mutations(prog, g, starts, depth=0):
    """(mutating Vec operations applied to the value held in `starts` of g - followed through `?`, map, transpose and the
    closures it is mapped through -, does it reach g's return value)"""
    bad = []
    seen = set()
    work = list(starts)
    reaches_ret = False
    while work:
        l = work.pop()
        if l in seen:
            continue
        seen.add(l)
        for u in forward_uses(g, l):
            if u[0] == "ret":
                reaches_ret = True
            elif u[0] == "agg":
                work.append(u[2]["dst"]["l"])
            elif u[0] == "call":
                t2, ai = u[2], u[3]
                c2 = callee(t2)
                if VEC_MUTATORS.search(c2) and ai == 0:
                    bad.append((c2.split("::")[-1] + (" in a mapped closure" if depth else ""), t2))
                    continue
                if ai == 0 and CARRIERS.search(c2):
                    if t2.get("dst"):
                        work.append(t2["dst"]["l"])
                    if depth < 4:
                        for a in t2["args"][1:]:
                            h = _closure_fn(prog, g, a)
                            if h is not None and h.argc >= 2:
                                b2, _ = _byte_mutations(prog, h, [2], depth + 1)
                                bad.extend((x, t2) for x, _ in b2)
    return bad, reaches_ret


def rule_report_bytes(ctx, prop):
    """the bytes of a unified / standard diff are the producer's: create_diff hands them to the caller as returned"""
    rep = Report(prop, "R-DIFFBYTES", "in create_diff, the buffer returned by output_diff_unified / output_diff reaches the return value "
                                      "without a mutating Vec operation (in the function or in a closure it is mapped through): a unified "
                                      "diff's bytes are file content, including the last line's own terminator")
    for cfg, prog in ctx.programs.items():
        prog = _view(prog)
        f = prog.fn("stylua", "create_diff")
        if not rep.anchor(f is not None, "stylua::create_diff", cfg):
            continue
        prods = [(b, t) for b, t in f.calls() if re.search(r"output_diff::output_diff(_unified)?$", callee(t))]
        if not rep.anchor(len(prods) >= 2, f"calls of output_diff / output_diff_unified in create_diff ({len(prods)})", cfg):
            continue
        for b, t in prods:
            name = callee(t).split("::")[-1]
            bad, reaches_ret = _byte_mutations(prog, f, [t["dst"]["l"]] if t.get("dst") else [])
            ok = not bad and reaches_ret
            rep.inst(f"{f.key} bytes of {name} returned as produced", {}, cfg, ok=ok)
            if bad:
                ops = sorted({x for x, _ in bad})
                rep.violation(f"{f.key} diff-bytes-modified producer={name} by={','.join(ops)}",
                              f"create_diff modifies the buffer produced by {name} ({', '.join(ops)}) before returning it: the bytes "
                              f"of a unified diff are file content (a trailing `\\r` before the final newline belongs to the last "
                              f"line), so the printed diff no longer reconstructs the formatted file", f.loc(bad[0][1]["sp"]), cfg)
            elif not reaches_ret:
                rep.violation(f"{f.key} diff-bytes-not-returned producer={name}",
                              f"the buffer produced by {name} does not reach create_diff's return value through the carriers the rule "
                              f"knows (`?`, context, map, transpose, Ok/Some): it is rebuilt or replaced on the way", f.loc(t["sp"]), cfg)
    return rep


def rule_json_fields(ctx, prop):
    """a consumer applies each mismatch as a line-range replacement: it needs all six fields of every record"""
    rep = Report(prop, "R-DIFFSER", "the derived Serialize of DiffMismatch writes every field of the struct unconditionally (one serialize_field "
                                    "per field, no skip_field / skip_serializing_if)")
    for cfg, prog in ctx.programs.items():
        prog = _view(prog)
        fs = [g for g in prog.fns("stylua") if re.search(r"Serialize for output_diff::DiffMismatch>::serialize$", g.path)]
        adt = prog.adt("output_diff::DiffMismatch", "stylua")
        if not rep.anchor(len(fs) == 1 and adt is not None, "derived Serialize of output_diff::DiffMismatch", cfg):
            continue
        g = fs[0]
        nfields = len(adt["variants"][0]["fields"])
        ser = [b for b, t in g.calls() if re.search(r"SerializeStruct>?::serialize_field$", callee(t))]
        skips = sorted({callee(t).split("::")[-1] for b, t in g.calls() if re.search(r"skip_field$|::is_empty$|Option::<.*>::is_none$", callee(t))})
        dom = g.dominators()
        rets = [bi for bi, b_ in enumerate(g.blocks) if b_["term"]["k"] == "return"]
        ok = len(ser) == nfields and not skips
        rep.inst(f"{g.key} serialises all {nfields} fields", {"serialize_field_calls": len(ser), "conditional": skips}, cfg, ok=ok)
        if not ok:
            rep.violation(f"stylua::output_diff::DiffMismatch json-field-conditional fields={len(ser)}/{nfields} via={','.join(skips) or 'count'}",
                          f"the Serialize impl of DiffMismatch writes {len(ser)} of {nfields} fields unconditionally (conditional through "
                          f"{skips or 'n/a'}): a pure deletion is printed without `expected`, a pure insertion without `original`, so the "
                          f"JSON mismatches can no longer be applied as line-range replacements", g.loc(), cfg)
    return rep


# ---------------------------------------------------------------------------------------------------------------
# R-DIFFDEP: the diff engine the producers are built against. `similar` is assumed correct by the other C18 rules; this
# rule records where that assumption is known to be false. Versions listed here were confirmed defective by running the
# crate alone (no StyLua code involved): with the default (Myers) and the Patience algorithm, `from_lines("a\nb\nc\n",
# "b\nc\nb\nc\n")` yields Delete{old 0, new_index 1}, Equal{old 1, new 0, len 2}, Insert{old_index 2, new 2, len 2} - op
# indices that do not tile the two texts. StyLua copies them into the JSON mismatches, and the unified printer derives
# `@@ -1,2 +2,3 @@` from them (rejected by patch(1)). Algorithm::Lcs gives consistent ops in the same version.
DEFECTIVE_SIMILAR = {
    "2.4.0": "Myers/Patience DiffOp indices do not tile the texts when a line is deleted in front of, and an equal run is "
             "re-inserted behind, a repeated block (`a b c` -> `b c b c`)",
}


def rule_dep(ctx, prop):
    import os
    rep = Report(prop, "R-DIFFDEP", "the diff engine pinned by Cargo.lock, with the algorithm the producers select, is not "
                                    "one confirmed to report inconsistent DiffOp indices")
    root = getattr(ctx, "repo", None) or "/repo"
    ver = None
    try:
        txt = open(os.path.join(root, "Cargo.lock")).read()
        m = re.search(r'\[\[package\]\]\s*\nname = "similar"\s*\nversion = "([^"]+)"', txt)
        ver = m.group(1) if m else None
    except OSError:
        pass
    if not rep.anchor(ver is not None, "version of crate similar in Cargo.lock"):
        return rep
    cfg0 = ctx.configs[0]
    prog = ctx.programs[cfg0]
    n = 0
    for f in prog.fns("stylua"):
        if not re.search(PRODUCERS, f.path):
            continue
        ctor = [(b, t) for b, t in f.calls() if re.search(r"TextDiff.*::from_lines$", callee(t)) or callee(t).endswith("::from_lines")]
        alg = [(b, t) for b, t in f.calls() if re.search(r"TextDiffConfig.*::algorithm$", callee(t))]
        if not ctor and not alg:
            continue
        if not re.search(r"output_diff_(json|unified)$", f.path):
            continue    # the coloured `standard` rendering is for reading, the property does not ask to apply it
        n += 1
        default_alg = bool(ctor) and not alg
        bad = ver in DEFECTIVE_SIMILAR and default_alg
        rep.inst(f"{f.key} diff engine similar-{ver} algorithm={'default(Myers)' if default_alg else 'configured'}",
                 {"fn": f.key, "similar": ver}, None, ok=not bad)
        if bad:
            rep.violation(f"{f.key} diff-engine-with-inconsistent-ops similar-{ver} default-algorithm",
                          f"{f.path} diffs with similar {ver} and its default algorithm: {DEFECTIVE_SIMILAR[ver]}; for the file "
                          f"`f() g()\\nf()\\ng()\\n` (formatted: `f()\\ng()\\nf()\\ng()\\n`) the JSON insertion is reported at original line 2 "
                          f"instead of 3 and the unified hunk header is `@@ -1,2 +2,3 @@`, so applying the printed diff does "
                          f"not give the formatted file", f.loc(ctor[0][1]["sp"]), None,
                          witness={"input": "f() g()\nf()\ng()\n", "argv": "stylua --check --output-format=json|unified a.lua"})
    rep.floor("appliable diff producers (json, unified) with a TextDiff construction", n, 2)
    return rep
