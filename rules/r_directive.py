"""R-DIRECTIVE: how `stylua: ignore`, `stylua: ignore start` and `stylua: ignore end` are recognised (C08).

The two detectors in context.rs compare a string with the directive text. The rule decides, from MIR:

 (a) the compared string is obtained from the `comment` text of a SingleLineComment / MultiLineComment token among
     the leading trivia of the node, split into lines, each line trimmed (the walk goes backwards from the
     comparison's operand through iterator adaptors and their closures: the first significant operation met must be
     `trim`, and `lines` must follow) - so a directive written on its own line is recognised whatever surrounds it;
 (b) the literals compared are exactly the three directive texts, each in its own detector;
 (c) the effect of a match: should_format_node returns FormatNode::Skip (and also when formatting_disabled is
     set), check_toggle_formatting sets formatting_disabled to true for `start`, false for `end`, and returns a
     Context carrying that flag.
"""
from engine import Report
from facts import *
from paths import *

SFN = "context::Context::should_format_node"
TOGGLE = "context::Context::check_toggle_formatting"
DIRECTIVES = {SFN: {"stylua: ignore"}, TOGGLE: {"stylua: ignore start", "stylua: ignore end"}}

PASS = re.compile(r"(Iterator>?::next|IntoIterator>?::into_iter|::iter|Deref>::deref|Iterator>?::flatten|Iterator::flatten|"
                  r"::by_ref|::peekable|as_str|AsRef<.*>>::as_ref|Borrow<.*>>::borrow|::unwrap|::expect|Clone>::clone|"
                  r"to_owned|Iterator::next|Iterator>?::copied|Iterator>?::cloned|Option::<.*>::as_ref|Iterator>?::rev)$")
ADAPT = re.compile(r"(Iterator>?::(map|filter_map|flat_map)|Iterator::(map|filter_map|flat_map)|Option::<.*>::(map|and_then))$")
FILTER = re.compile(r"(Iterator>?::filter|Iterator::filter)$")


def _short(c):
    return re.sub(r"::<[^<>]*(<[^<>]*>[^<>]*)*>$", "", c)


def chain(prog, f, o, cont=(), depth=0):
    """set of tuples of significant operations met walking backwards from operand `o` to where the text comes from"""
    if depth > 24:
        return {("?depth",)}
    out = set()
    roots = provenance(f, o, through=None)
    if not roots:
        return {("?noroot",)}
    for r in roots:
        if r[0] == "call":
            t = f.blocks[r[2]]["term"]
            c = _short(callee(t))
            full = callee(t)
            if re.search(r"<impl str>::trim$", c):
                out |= {("trim",) + x for x in chain(prog, f, t["args"][0], cont, depth + 1)}
            elif re.search(r"<impl str>::(trim_\w+|to_\w+case|replace\w*|strip_\w+)$", c):
                out |= {("?" + c.split("::")[-1],) + x for x in chain(prog, f, t["args"][0], cont, depth + 1)}
            elif re.search(r"<impl str>::lines$", c):
                out |= {("lines",) + x for x in chain(prog, f, t["args"][0], cont, depth + 1)}
            elif re.search(r"Token::token_type$", c):
                out |= {("token_type",) + x for x in chain(prog, f, t["args"][0], cont, depth + 1)}
            elif re.search(r"Node>?::surrounding_trivia$", c):
                out.add(("surrounding_trivia",))
            elif ADAPT.search(full) or ADAPT.search(c):
                target = None
                for rr in provenance(f, t["args"][1], through=None):
                    if rr[0] == "agg" and rr[1].startswith("closure "):
                        target = prog.fn(f.crate, rr[1][8:])
                    elif rr[0] == "const" and rr[1].startswith("fn:"):
                        nm = rr[1][3:]
                        if re.search(r"<impl str>::trim$", _short(nm)):
                            out |= {("trim",) + x for x in chain(prog, f, t["args"][0], cont, depth + 1)}
                            target = "done"
                        else:
                            target = prog.fn(f.crate, _short(nm))
                if target == "done":
                    continue
                if target is None:
                    out.add(("?" + c.split("::")[-1],))
                    continue
                out |= chain(prog, target, {"cp": {"l": 0}}, ((f, t["args"][0]),) + tuple(cont), depth + 1)
            elif FILTER.search(full) or PASS.search(full) or PASS.search(c):
                out |= chain(prog, f, t["args"][0], cont, depth + 1)
            elif prog.fn(f.crate, full) is not None and prog.fn(f.crate, full) is not f:
                # a local helper: continue in its return value; its parameters map back to this call's arguments
                h = prog.fn(f.crate, full)
                out |= chain(prog, h, {"cp": {"l": 0}}, ((f, ("args", t)),) + tuple(cont), depth + 1)
            else:
                out.add(("?" + c.split("::")[-1],))
        elif r[0] == "arg":
            if cont:
                pf, po = cont[0]
                if isinstance(po, tuple) and po[0] == "args":
                    k = r[1] - 1
                    if 0 <= k < len(po[1]["args"]):
                        out |= chain(prog, pf, po[1]["args"][k], cont[1:], depth + 1)
                    else:
                        out.add(("?arg",))
                elif f.kind == "Closure" and r[1] >= 2:
                    out |= chain(prog, pf, po, cont[1:], depth + 1)
                else:
                    out.add(("?arg",))
            elif f.kind == "Closure" and r[1] >= 2:
                site = _closure_site(prog, f)
                if site is None:
                    out.add(("?arg",))
                else:
                    pf, at = site
                    # the closure's parameter is an element of the adaptor's receiver
                    out |= chain(prog, pf, at["args"][0], (), depth + 1)
            else:
                out.add(("?arg",))
        elif r[0] == "const":
            if "None" in r[1]:
                continue
            out.add(("const:" + r[1],))
        elif r[0] == "agg" and r[1].endswith(("::None", "Option::Some")):
            continue   # an empty Option carries no text
        else:
            out.add(("?" + str(r[0]),))
    return out


def _closure_site(prog, g):
    """(parent fn, call term) of the iterator adaptor / Option combinator that receives closure g"""
    parent = prog.fn(g.crate, g.path.rsplit("::{closure", 1)[0])
    if parent is None:
        return None
    for b, si_, s in parent.stmts():
        if s["k"] == "assign" and s["rv"]["k"] == "agg" and s["rv"].get("closure") == g.path:
            for u in forward_uses(parent, s["dst"]["l"]):
                if u[0] == "call" and u[3] == 1:
                    return parent, u[2]
    return None


def _str_consts(f, o):
    out = []
    for r in provenance(f, o, through=None):
        if r[0] == "const" and r[1].startswith("s:"):
            out.append(r[1][2:])
        elif r[0] == "const" and r[1].startswith("pp:"):
            m = re.search(r"promoted\[(\d+)\]$", r[1])
            if m and int(m.group(1)) < len(f.promoted):
                for blk in f.promoted[int(m.group(1))]["blocks"]:
                    for s in blk["st"]:
                        if s["k"] == "assign" and s["rv"]["k"] == "use" and is_const(s["rv"]["o"]) and "s" in s["rv"]["o"]:
                            out.append(s["rv"]["o"]["s"])
    return out


def _compares(f):
    """(block, term, literal, other operand) for every string equality against a constant"""
    out = []
    for b, t in f.calls():
        c = callee(t)
        if not re.search(r"PartialEq.*::(eq|ne)$", c) and not (t.get("fn") or "").endswith(("PartialEq::eq", "PartialEq::ne")):
            continue
        if len(t["args"]) != 2:
            continue
        for i in (0, 1):
            lits = _str_consts(f, t["args"][i])
            if lits:
                out.append((b, t, lits[0], t["args"][1 - i]))
                break
    return out


def rule_directive(ctx, prop):
    rep = Report(prop, "R-DIRECTIVE", "ignore directives: compared text is a trimmed line of a leading comment; the three "
                                      "literals; a match yields Skip / sets formatting_disabled")
    for cfg, prog in ctx.programs.items():
        total = 0
        for path, want in DIRECTIVES.items():
            f = prog.fn("stylua_lib", path)
            if not rep.anchor(f is not None, path, cfg):
                continue
            cmps = _compares(f)
            # comparisons may also sit in closures of the detector
            for g in prog.fns("stylua_lib"):
                if g.kind == "Closure" and g.path.startswith(path + "::{closure"):
                    cmps += [(b, t, lit, o, g) for b, t, lit, o in _compares(g)]
            cmps = [x if len(x) == 5 else x + (f,) for x in cmps]
            lits = {lit for _, _, lit, _, _ in cmps}
            rep.inst(f"{f.key} directive literals {sorted(want)}", {"found": sorted(lits)}, cfg, ok=lits == want)
            if lits != want:
                rep.violation(f"{f.key} directive-literals found={sorted(lits)}",
                              f"{path} compares comment lines with {sorted(lits)}, expected exactly {sorted(want)}: a "
                              f"directive is no longer (or wrongly) recognised", f.loc(), cfg)
            for b, t, lit, other, g in cmps:
                if lit not in want:
                    continue
                total += 1
                chains = chain(prog, g, other)
                bad = []
                for ch in chains:
                    sig = [x for x in ch if x in ("trim", "lines", "token_type", "surrounding_trivia") or x.startswith("?")
                           or x.startswith("const:")]
                    ok = (len(sig) >= 4 and sig[0] == "trim" and "lines" in sig[1:] and sig[-1] == "surrounding_trivia"
                          and sig[-2] == "token_type" and not [x for x in sig if x.startswith("?") or x.startswith("const:")]
                          and set(sig[1:sig.index("lines", 1)]) <= {"trim"})
                    if not ok:
                        bad.append(sig)
                rep.inst(f"{g.key} `{lit}` is compared with a trimmed line of a leading comment",
                         {"chains": sorted(",".join(c) for c in chains)}, cfg, ok=not bad)
                for sig in bad[:1]:
                    rep.violation(f"{f.key} directive-text-derivation `{lit}` ops={','.join(sig)}",
                                  f"the string compared with `{lit}` is derived (backwards) through [{', '.join(sig)}] "
                                  f"instead of trim <- lines <- comment text of a leading trivia token: a directive on "
                                  f"its own line of a comment is not recognised when other lines / indentation surround it",
                                  g.loc(t["sp"]), cfg)
                # --- effect
                be = bool_edge(g, b)
                is_ne = callee(t).endswith("::ne") or (t.get("fn") or "").endswith("::ne")
                eg = g
                if be is None and g.kind == "Closure" and not is_ne and \
                        any(r[0] == "call" and r[2] == b for r in provenance(g, {"cp": {"l": 0}}, through=None)):
                    # the closure returns the comparison: `iter.any(|line| line == "..")` in the parent
                    site = _closure_site(prog, g)
                    if site is not None and re.search(r"Iterator>?::any$|Iterator::any$", callee(site[1]).split("::<")[0]):
                        eg = site[0]
                        ab = [bb for bb, tt in eg.calls() if tt is site[1]]
                        be = bool_edge(eg, ab[0]) if ab else None
                if not rep.anchor(be is not None, f"{g.path}: comparison with `{lit}` is branched on", cfg):
                    continue
                tb = be[1] if is_ne else be[0]
                g_effect = eg
                if path == SFN:
                    # the true edge returns Skip: every return reachable without passing another decision assigns Skip
                    ok = _true_edge_returns(g_effect, tb, "Skip")
                    rep.inst(f"{g.key} match of `{lit}` returns FormatNode::Skip", None, cfg, ok=ok)
                    if not ok:
                        rep.violation(f"{f.key} directive-effect `{lit}`",
                                      f"a comment line equal to `{lit}` does not make should_format_node return Skip",
                                      g.loc(t["sp"]), cfg)
                else:
                    val = lit.endswith("start")
                    flag = _assigned_bool(g_effect, tb)
                    ok = flag is not None and flag[1] == val and _flows_to_result(g_effect, flag[0])
                    rep.inst(f"{g.key} match of `{lit}` sets formatting_disabled = {str(val).lower()}", None, cfg, ok=ok)
                    if not ok:
                        rep.violation(f"{f.key} directive-effect `{lit}`",
                                      f"a comment line equal to `{lit}` does not set formatting_disabled to "
                                      f"{str(val).lower()} in the returned Context", g.loc(t["sp"]), cfg)
            if path == SFN:
                # formatting_disabled => Skip, before anything else
                ok = False
                t0 = f.blocks[0]["term"]
                if t0["k"] == "switch":
                    src = None
                    for s in f.blocks[0]["st"]:
                        if s["k"] == "assign" and s["rv"]["k"] == "use" and not is_const(s["rv"]["o"]):
                            pl = op_place(s["rv"]["o"])
                            if any(isinstance(e, dict) and e.get("f") == "formatting_disabled" for e in pl.get("p", [])) and \
                                    s["dst"]["l"] == op_local(t0["on"]):
                                src = s
                    if src is not None:
                        ok = _true_edge_returns(f, t0["otherwise"], "Skip")
                rep.inst(f"{f.key} formatting_disabled => Skip first", None, cfg, ok=ok)
                if not ok:
                    rep.violation(f"{f.key} disabled-region-not-skipped",
                                  "should_format_node does not start by returning Skip when formatting_disabled is set: "
                                  "statements between `stylua: ignore start` and `end` are formatted", f.loc(), cfg)
        rep.floor("directive comparisons", total, 3, cfg)
    return rep


def _true_edge_returns(f, b, variant):
    """from block b, following gotos/drops only, is _0 assigned FormatNode::<variant> before return?"""
    assigned = False
    seen = set()
    while b is not None and b not in seen:
        seen.add(b)
        blk = f.blocks[b]
        for s in blk["st"]:
            if s["k"] == "assign" and s["dst"]["l"] == 0 and not s["dst"].get("p"):
                rv = s["rv"]
                assigned = (rv["k"] == "agg" and rv.get("variant") == variant) or \
                           (rv["k"] == "use" and is_const(rv["o"]) and rv["o"].get("variant") == variant)
        t = blk["term"]
        if t["k"] == "return":
            return assigned
        if t["k"] == "goto":
            b = t["t"]
        elif t["k"] == "drop":
            b = t["t"]
        elif t["k"] == "switch":
            # drop flags: all successors must agree
            succs = {bb for _, bb in t["targets"]} | {t["otherwise"]}
            if assigned:
                return all(_reaches_return_without_assign(f, s_) for s_ in succs)
            return False
        else:
            return False
    return False


def _reaches_return_without_assign(f, b, seen=None):
    seen = seen or set()
    if b in seen:
        return True
    seen.add(b)
    blk = f.blocks[b]
    for s in blk["st"]:
        if s["k"] == "assign" and s["dst"]["l"] == 0:
            return False
    t = blk["term"]
    if t["k"] == "return":
        return True
    if t["k"] in ("goto", "drop"):
        return _reaches_return_without_assign(f, t["t"], seen)
    if t["k"] == "switch":
        return all(_reaches_return_without_assign(f, s_, seen) for s_ in {bb for _, bb in t["targets"]} | {t["otherwise"]})
    return False


def _assigned_bool(f, b):
    """(local, value) of the constant bool assigned in block b (following a goto)"""
    for _ in range(3):
        blk = f.blocks[b]
        for s in blk["st"]:
            if s["k"] == "assign" and s["rv"]["k"] == "use" and is_const(s["rv"]["o"]) and \
                    isinstance(s["rv"]["o"].get("v"), bool) and not s["dst"].get("p"):
                return s["dst"]["l"], s["rv"]["o"]["v"]
        if blk["term"]["k"] == "goto":
            b = blk["term"]["t"]
        else:
            break
    return None


def _flows_to_result(f, l):
    """local l is the formatting_disabled operand of the Context aggregate assigned to _0"""
    for b, si_, s in f.stmts():
        if s["k"] == "assign" and s["rv"]["k"] == "agg" and s["rv"].get("adt", "").endswith("context::Context") and \
                s["dst"]["l"] == 0:
            adt = f.prog.adt("context::Context", f.crate)
            names = [x["name"] for x in adt["variants"][0]["fields"]]
            ops = dict(zip(names, s["rv"]["ops"]))
            o = ops.get("formatting_disabled")
            if o is not None and not is_const(o):
                if op_local(o) == l:
                    return True
                # a copy
                for r in origins(f, op_local(o)) if callable(origins) else []:
                    pass
                for bb, sj, ss in f.stmts():
                    if ss["k"] == "assign" and ss["dst"]["l"] == op_local(o) and ss["rv"]["k"] == "use" and \
                            not is_const(ss["rv"]["o"]) and op_local(ss["rv"]["o"]) == l:
                        return True
    return False
