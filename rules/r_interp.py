"""R-INTERP: `{` of an interpolated-string segment is never directly followed by the `{` of a table constructor (C01,
Luau: "`{{` is an error"). format_expression may remove parentheses, so the question `is it a table constructor?` must
be asked of the *formatted* expression; when the answer is yes a space is appended in front of it."""
from engine import Report
from facts import *
from paths import *

FN = "formatters::expression::format_interpolated_string"


def _deep(f, o, depth=0, seen=None):
    """call roots of a value, following the receiver of every call"""
    seen = set() if seen is None else seen
    out = []
    if depth > 10:
        return out
    for r in provenance(f, o, through=None):
        if r[0] == "call" and r[2] not in seen:
            seen.add(r[2])
            out.append(r)
            t = f.blocks[r[2]]["term"]
            if t["args"]:
                out += _deep(f, t["args"][0], depth + 1, seen)
    return out


def rule_interp(ctx, prop):
    rep = Report(prop, "R-INTERP", "every interpolated-string segment is built from format_expression's result after asking "
                                   "that result whether it is a table constructor, and a space is prepended when it is")
    for cfg, prog in ctx.programs.items():
        f = prog.fn("stylua_lib", FN)
        has_luau = prog.adt("full_moon::ast::luau::InterpolatedStringSegment", "stylua_lib") is not None
        if not has_luau:
            continue
        if not rep.anchor(f is not None, FN, cfg):
            continue
        from inline import inlined, small_helper
        f = inlined(prog, f, small_helper(prog, keep=r"^formatters::(expression::format_expression|general::format_token_reference)$"))
        adt = prog.adt("full_moon::ast::luau::InterpolatedStringSegment", "stylua_lib")
        names = [x["name"] for x in adt["variants"][0]["fields"]]
        ei = names.index("expression")
        try:
            res = Enumerator(f, summaries=False, max_paths=20000).run()
        except TooManyPaths:
            rep.anchor(False, f"{FN}: too many paths", cfg)
            continue
        n = 0
        bad = {}
        for st in res:
            trail = set(st.trail)
            aggs = [(b, s) for b, si_, s in f.stmts() if b in trail and s["k"] == "assign" and s["rv"]["k"] == "agg"
                    and s["rv"].get("adt", "").endswith("InterpolatedStringSegment")]
            for b, s in aggs:
                n += 1
                o = s["rv"]["ops"][ei]
                rs = [r for r in _deep(f, o) if r[2] in trail]
                fes = [r[2] for r in rs if r[1].endswith("format_expression")]
                if not fes:
                    bad["segment-expression-not-formatted"] = s
                    continue
                keys = {f"call:{fe}" for fe in fes} | {f"local:{f.blocks[fe]['term']['dst']['l']}" for fe in fes}
                answers = [v for k, v in st.hist if k in keys]
                if not answers:
                    bad["table-question-not-asked-of-formatted-expression"] = s
                    continue
                is_table = any(v == "TableConstructor" for v in answers)
                if is_table:
                    upd = [r for r in rs if r[1].endswith("update_leading_trivia")]
                    spaced = False
                    for r in upd:
                        t = f.blocks[r[2]]["term"]
                        for q in provenance(f, t["args"][1], through=None):
                            if q[0] == "agg" and q[1].endswith("FormatTriviaType::Append"):
                                spaced = True
                    if not spaced:
                        bad["table-constructor-without-leading-space"] = s
        rep.inst(f"{f.key} segments guarded against `{{{{`", {"segment_paths": n}, cfg, ok=not bad)
        for why, s in sorted(bad.items()):
            rep.violation(f"{f.key} interpolation-brace-guard {why}",
                          f"format_interpolated_string builds a segment with {why.replace('-', ' ')}: parentheses around a "
                          f"table constructor are removed by format_expression, so `{{({{ a }})}}` is printed as `{{{{ a }}}}`, "
                          f"which Luau rejects", f.loc(s.get("sp")), cfg)
        rep.floor("segment construction paths", n, 2, cfg)
    return rep
