"""C19 Results do not depend on thread count or scheduling - static race-pattern conditions."""
import r_cli

EXPLANATION = (
    "Static race-pattern check (no schedules are explored, the yield-point hook of the property text is not used): "
    "(R-ATOMIC) the exit status is a max-lattice {0<1<2} written from the output thread, the walker thread and the "
    "logger; every write must be an atomic monotone update (fetch_max or a store of the top element) - a "
    "load-then-store(1) is a check-then-act race whatever guards it; workers capture no shared mutable state; "
    "(R-EXIT) complete list of accessors, drop(tx) before join before the final read; (R-WORKERS) one send per "
    "worker. (R-FS) file contents: the only file-system mutation anywhere is the single fs::write of format_file, and its "
    "target is the very path the worker read - no worker creates, renames or writes a file name another worker could "
    "also touch (a shared temporary name is an interference between workers, invisible with one thread). (R-NOSTATE) the library keeps no static / thread-local cell, lock, atomic or once-initialised value "
    "except compiled regular expressions, so a worker that formats several files carries nothing from one to the next. With these the "
    "status is a max over a schedule-independent set of events and every file is written by exactly one worker."
    "Later rounds: (R-WALK dedup) one job per file; (R-WORKERS) no pool parameter other than its size is computed from the thread count; Builder pools accepted.")
ASSUMPTIONS = ["SeqCst atomics; threadpool::join waits for all queued jobs",
               "rustc MIR and Instance::try_resolve are trusted"]


def run(ctx):
    return [r_cli.rule_atomic(ctx, "C19"), r_cli.rule_exit(ctx, "C19"), r_cli.rule_workers(ctx, "C19"), r_cli.rule_fs(ctx, "C19"), r_cli.rule_no_state(ctx, "C19"), r_cli.rule_loop_exit(ctx, "C19"), r_cli.rule_job_only_in_pool(ctx, "C19"), r_cli.rule_walk(ctx, "C19", dedup_only=True)]
