"""R-REPLACE: trivia accounting at `FormatTriviaType::Replace` sites (C03).

`x.update_*_trivia(Replace(v))` throws away x's existing trivia on that side. In the functions that move comments
across operators / commas / equals signs, each such site is preceded by a *complete* read of that side of the same
node (trailing_comments(), leading_trivia(), take_*_comments, or the pair Single + Multiline). The rule recomputes
that accounting on every run for a frozen table of (function, side) pairs which are fully accounted on the pinned
tree (confirmed by reading): a site that becomes unaccounted - a reader narrowed to CommentSearch::Single, a read
dropped, a new Replace without a read - is reported. Functions whose accounting is inter-procedural (the caller
re-attaches the comments) are not in the table and are not decided.
"""
import json
import os
from engine import Report
from facts import *
from paths import *

READ_ALL = re.compile(r"(TokenReference::(leading_trivia|trailing_trivia|surrounding_trivia)$|"
                      r"Get(Leading|Trailing)Trivia>?::(leading_trivia|trailing_trivia|leading_comments|trailing_comments)$|"
                      r"take_(leading|trailing)_comments$|take_trailing_trivia$|::surrounding_trivia$)")
READ_SEARCH = re.compile(r"Get(Leading|Trailing)Trivia>?::(leading|trailing)_comments_search$")
NODE_XFORM = re.compile(r"^formatters::.*::(format_|hang_)|Update\w*Trivia>?::update_|::update_(leading_|trailing_)?trivia$|"
                        r"prepend_newline_indent$")

# (function path, side) pairs whose Replace sites are all accounted inside the function on the pinned tree
FROZEN = {
    ("formatters::expression::hang_binop", "leading"): "operator comments are collected with leading_comments()",
    ("formatters::expression::hang_binop", "trailing"): "trailing_comments() moved in front of the operator",
    ("formatters::luau::hang_type_info_binop", "leading"): "same for | and & in types",
    ("formatters::luau::hang_type_info_binop", "trailing"): "same for | and & in types",
    ("formatters::assignment::hang_equal_token", "trailing"): "comments after `=` are re-emitted on the next line",
    ("formatters::general::format_punctuated_multiline", "trailing"): "comments of a list element move after the comma",
    ("formatters::general::format_contained_punctuated_multiline", "leading"): "",
    ("formatters::general::format_contained_punctuated_multiline", "trailing"): "Single + Multiline split covers all",
    ("formatters::table::create_table_braces", "leading"): "",
    ("formatters::table::create_table_braces", "trailing"): "",
    ("formatters::trivia_util::prepend_newline_indent", "leading"): "",
    ("formatters::trivia_util::take_leading_comments", "leading"): "",
    ("formatters::trivia_util::take_trailing_comments", "trailing"): "",
    ("formatters::trivia_util::take_trailing_trivia", "trailing"): "",
    ("formatters::luau::format_type_declaration", "leading"): "",
    ("formatters::luau::format_type_declaration", "trailing"): "",
    ("formatters::luau::format_type_field", "trailing"): "",
    ("formatters::functions::format_function_args", "leading"): "leading whitespace of arguments stripped, comments kept",
    ("formatters::block::prefix_remove_leading_newlines", "leading"): "",
    ("formatters::block::var_remove_leading_newline", "leading"): "",
}


def _side_of(c):
    n = c.split("::")[-1]
    if "surrounding" in n:
        return {"leading", "trailing"}
    if "leading" in n:
        return {"leading"}
    if "trailing" in n:
        return {"trailing"}
    return {"leading", "trailing"}


def _search_kind(f, t):
    for a in t["args"][1:]:
        for r in provenance(f, a, through=None):
            if r[0] == "const" and r[1].startswith("variant:"):
                return r[1][8:]
            if r[0] == "agg" and "CommentSearch" in r[1]:
                return r[1].split("::")[-1]
    return "?"


def _base_key(f, operand):
    """stable key of the node an operand denotes; a formatted / trivia-updated copy of X counts as X"""
    ap = access_path(f, operand)
    hops = 0
    while ap[0][0] == "call" and hops < 6:
        t = f.blocks[ap[0][1]]["term"]
        c = callee(t)
        if NODE_XFORM.search(c):
            cand = [a for a in t["args"] if not is_const(a) and
                    not any(x in f.local_ty(op_place(a)["l"]) for x in ("Context", "Shape", "FormatTriviaType"))]
            if not cand:
                break
            ap = access_path(f, cand[0])
            hops += 1
        else:
            break
    root, steps = ap
    if root[0] == "call":
        t = f.blocks[root[1]]["term"]
        rs = "call:" + callee(t).split("::", 1)[-1]
        if t["args"] and not is_const(t["args"][0]):
            rs += "(" + path_key(access_path(f, t["args"][0])).split(".")[0] + ")"
    else:
        rs = ":".join(str(x) for x in root)
    return rs + "".join("." + (s[1] if len(s) > 1 else "[]") for s in steps)


def replace_sites(f):
    out = []
    for b, si_, s in f.stmts():
        if s["k"] == "assign" and s["rv"]["k"] == "agg" and s["rv"].get("variant") == "Replace" and \
                s["rv"].get("adt", "").endswith("FormatTriviaType"):
            for u in forward_uses(f, s["dst"]["l"]):
                if u[0] == "call" and re.search(r"update_(leading_|trailing_)?trivia$", callee(u[2])):
                    t = u[2]
                    n = callee(t).split("::")[-1]
                    if n == "update_trivia":
                        side = "leading" if u[3] == 1 else "trailing"
                    else:
                        side = "leading" if "leading" in n else "trailing"
                    out.append((b, s, t, side, _base_key(f, t["args"][0])))
    return out


def accounting(f):
    reads = {}
    for b, t in f.calls():
        c = callee(t)
        if not t["args"] or is_const(t["args"][0]):
            continue
        if READ_ALL.search(c):
            k = _base_key(f, t["args"][0])
            for sd in _side_of(c):
                reads.setdefault((k, sd), set()).add("All")
        elif READ_SEARCH.search(c):
            k = _base_key(f, t["args"][0])
            for sd in _side_of(c):
                reads.setdefault((k, sd), set()).add(_search_kind(f, t))
    return reads


def rule_replace(ctx, prop):
    rep = Report(prop, "R-REPLACE", "where a node's trivia is replaced while comments are moved across operators / commas / "
                                    "`=`, that side of the same node was read completely first")
    for cfg, prog in ctx.programs.items():
        n = 0
        present = set()
        for f in prog.fns("stylua_lib"):
            sides = {sd for (p, sd) in FROZEN if p == f.path}
            if not sides:
                continue
            sites = replace_sites(f)
            reads = accounting(f)
            for b, s, t, side, k in sites:
                if side not in sides:
                    continue
                present.add((f.path, side))
                n += 1
                r = reads.get((k, side), set())
                ok = "All" in r or {"Single", "Multiline"} <= r
                rep.inst(f"{f.key} Replace({side}) of {k}", {"fn": f.key, "side": side, "node": k, "reads": sorted(r),
                                                            "at": f.loc(s["sp"])}, cfg, ok=ok)
                if not ok:
                    rep.violation(f"{f.key} unaccounted-Replace side={side} node={k} reads={sorted(r)}",
                                  f"{f.path} replaces the {side} trivia of `{k}` but only reads {sorted(r) or 'nothing'} of "
                                  f"it beforehand: comments of the other kind(s) attached there are deleted",
                                  f.loc(s["sp"]), cfg)
        missing = [k for k in FROZEN if k not in present and
                   not ("luau" in k[0] and "luau" not in __import__("extract").FEATURES[cfg])]
        for p, sd in missing:
            if prog.fn("stylua_lib", p) is None:
                rep.anchor(False, f"{p} (frozen R-REPLACE function no longer exists)", cfg)
        rep.floor("Replace sites in comment-moving functions", n, 8, cfg)
    return rep


# ---------------------------------------------------------------------------------------------------------------
# Every other Replace site: a census bounded by the reviewed state of the current tree.
FROZEN_CENSUS = os.path.join(os.path.dirname(os.path.abspath(__file__)), "frozen_replace_census.json")


def census(prog):
    """{(fn, side): number of Replace sites whose side of the node is not completely read in that function}"""
    out = {}
    for f in prog.fns("stylua_lib"):
        sites = replace_sites(f)
        if not sites:
            continue
        reads = accounting(f)
        for b, s, t, side, k in sites:
            r = reads.get((k, side), set())
            if "All" in r or {"Single", "Multiline"} <= r:
                continue
            out[(f.path, side)] = out.get((f.path, side), 0) + 1
    return out


def rule_replace_census(ctx, prop):
    rep = Report(prop, "R-REPLACE(census)", "no new `FormatTriviaType::Replace` of a node's trivia appears without a complete "
                                           "read of that side of the node in the same function (crate-wide count per side, "
                                           "bounded by the reviewed sites of the current tree)")
    if not rep.anchor(os.path.exists(FROZEN_CENSUS), "frozen_replace_census.json"):
        return rep
    frozen = json.load(open(FROZEN_CENSUS))
    for cfg, prog in ctx.programs.items():
        ref = frozen.get(cfg)
        if ref is None:
            continue
        now = census(prog)
        for side in ("leading", "trailing"):
            tot = sum(v for (fn, sd), v in now.items() if sd == side)
            ok = tot <= ref["total"][side]
            rep.inst(f"stylua_lib unaccounted Replace({side}) sites: {tot} (reviewed: {ref['total'][side]})", None, cfg, ok=ok)
            if not ok:
                grown = sorted(fn for (fn, sd), v in now.items() if sd == side and v > ref["by_fn"].get(f"{fn} | {sd}", 0))
                for fn in grown:
                    f = prog.fn("stylua_lib", fn)
                    rep.violation(f"stylua_lib::{fn} new-unaccounted-Replace side={side}",
                                  f"{fn} has a new site that replaces the {side} trivia of a node without reading that side "
                                  f"of the same node first ({now[(fn, side)]} such sites, {ref['by_fn'].get(fn + ' | ' + side, 0)} "
                                  f"reviewed): comments attached there are deleted (Append keeps them)", f.loc(), cfg)
        rep.floor("Replace sites outside the accounted table", sum(now.values()), 10, cfg)
    return rep


def freeze_census():
    import extract
    files, _ = extract.extract(extract.THOROUGH, verbose=False)
    out = {}
    for cfg in extract.THOROUGH:
        c = census(Program(cfg, files[cfg]))
        out[cfg] = {"total": {sd: sum(v for (fn, s_), v in c.items() if s_ == sd) for sd in ("leading", "trailing")},
                    "by_fn": {f"{fn} | {sd}": v for (fn, sd), v in sorted(c.items())}}
    with open(FROZEN_CENSUS, "w") as fh:
        json.dump(out, fh, indent=1, sort_keys=True)
    print({c: d["total"] for c, d in out.items()})


if __name__ == "__main__":
    import sys
    if "--freeze" in sys.argv:
        freeze_census()


# ---------------------------------------------------------------------------------------------------------------
# Functions whose *caller* re-emits the comments of one side of the node (moves them behind a comma / onto the next line):
# the node they return must have that side replaced on every path, otherwise the comment is printed twice (and the first
# copy comments out what follows on its line). Found by enumerating all formatter functions for this shape on the current
# tree, confirmed by reading.
STRIP_CONTRACT = {
    "formatters::table::format_field_expression_value": ("trailing", "format_field moves the value's line comments behind the comma"),
    "formatters::assignment::hang_equal_token": ("trailing", "comments after `=` are re-emitted inside the replaced trivia"),
}


def rule_strip_contract(ctx, prop):
    from paths import Enumerator, TooManyPaths
    rep = Report(prop, "R-REPLACE(contract)", "functions whose caller re-emits one side's comments return, on every path, a node "
                                              "whose trivia on that side was replaced (no layout branch keeps the original)")
    for cfg, prog in ctx.programs.items():
        for path, (side, why) in STRIP_CONTRACT.items():
            f = prog.fn("stylua_lib", path)
            if not rep.anchor(f is not None, path, cfg):
                continue
            try:
                res = Enumerator(f, summaries=False, max_paths=5000).run()
            except TooManyPaths:
                rep.anchor(False, f"{path}: too many paths", cfg)
                continue
            bad = set()
            for st in res:
                v0 = st.vals.get(0)
                ok = False
                via = "?"
                if v0 and v0[0] == "callres":
                    t = f.blocks[v0[1]]["term"]
                    via = callee(t).split("::")[-1]
                    if re.search(rf"update_{side}_trivia$", callee(t)) and \
                            any(r[0] == "agg" and r[1].endswith("FormatTriviaType::Replace") for r in provenance(f, t["args"][1])):
                        ok = True
                if not ok:
                    bad.add(via)
            rep.inst(f"{f.key} every return replaces the {side} trivia", {"paths": len(res), "why": why}, cfg, ok=not bad and bool(res))
            for via in sorted(bad):
                rep.violation(f"{f.key} returns-with-original-{side}-trivia via={via}",
                              f"{path} returns, on some path, the result of {via} without replacing its {side} trivia; {why}, so "
                              f"the comment appears twice and the first copy swallows what follows it on the line", f.loc(), cfg)
    return rep


def rule_strip_callers(ctx, prop):
    """the other half of the strip contracts: a caller collects the comments from the node it hands over - before they are
    stripped - and never from the stripped result"""
    from paths import access_path, path_key
    rep = Report(prop, "R-REPLACE(callers)", "every caller of a function that strips one side's comments reads those comments from "
                                             "the node it passes in, not from the stripped result")
    getter = {"trailing": re.compile(r"::(trailing_comments_search|trailing_comments|trailing_trivia|take_trailing_comments)$"),
              "leading": re.compile(r"::(leading_comments_search|leading_comments|leading_trivia|take_leading_comments)$")}
    for cfg, prog in ctx.programs.items():
        n = 0
        for path, (side, why) in STRIP_CONTRACT.items():
            h = prog.fn("stylua_lib", path)
            if h is None:
                continue
            node_idx = [i for i in range(1, h.argc + 1) if "full_moon::ast::" in h.locals[i] or "TokenReference" in h.locals[i]]
            for g in prog.fns("stylua_lib"):
                for b, t in g.calls():
                    if callee(t) != path:
                        continue
                    n += 1
                    keys = set()
                    for i in node_idx:
                        if i - 1 < len(t["args"]) and not is_const(t["args"][i - 1]):
                            keys.add(path_key(access_path(g, t["args"][i - 1])))
                    from_input = False
                    from_result = None
                    for b2, t2 in g.calls():
                        if not getter[side].search(callee(t2)) or not t2["args"] or is_const(t2["args"][0]):
                            continue
                        k2 = path_key(access_path(g, t2["args"][0]))
                        if k2 in keys:
                            from_input = True
                        # receiver derived from the stripped result?
                        seen = set()
                        work = [t2["args"][0]]
                        while work:
                            o = work.pop()
                            for r in provenance(g, o, through=None):
                                if r[0] == "call" and r[2] not in seen:
                                    seen.add(r[2])
                                    if r[2] == b:
                                        from_result = t2
                                    tt = g.blocks[r[2]]["term"]
                                    if tt["args"] and re.search(r"to_owned$|clone$|update_(leading_|trailing_)?trivia$|deref$|as_ref$", r[1]):
                                        work.append(tt["args"][0])
                    ok = from_result is None
                    rep.inst(f"{g.key} -> {path.split('::')[-1]}: {side} comments not read from the stripped result",
                             {"read_from_input": from_input, "at": g.loc(t["sp"])}, cfg, ok=ok)
                    if not ok:
                        rep.violation(f"{g.key} comments-read-from-stripped-result {path.split('::')[-1]}",
                                      f"{g.path} asks the result of {path} for its {side} comments ({callee(from_result).split('::')[-1]}), "
                                      f"but {path} has just removed them ({why}): nothing is found, so the comments are neither on the "
                                      f"node nor re-emitted - they disappear from the output", g.loc(from_result["sp"]), cfg)
        rep.floor("call sites of strip-contract functions", n, 3, cfg)
    return rep
