"""C11 quote_style, call_parentheses and space_after_function_names are honoured - static decision tables."""
import r_layout
import r_opt

EXPLANATION = (
    "Decision tables extracted from MIR by path enumeration (A-TABLE) and compared with the documented meaning of "
    "each option value, in every feature configuration: get_quote_to_use (Force* constant; AutoPrefer* switches only "
    "on the strictly-greater side of count(')-vs-count(\") and format_token takes the quote from it); "
    "create_function_call_trivia / create_function_definition_trivia (4x2 table) and every caller of "
    "format_function_body / both Call arms apply them; should_omit_string_parens / should_omit_table_parens; the "
    "decision structure of format_function_args (keep-as-written iff Input or (omit and not obscure); parentheses are "
    "dropped only if !Input, omit, one argument of the right kind, not obscure; the sugar node is built from the "
    "call's own argument) and FunctionArgs is constructed nowhere else; every path of format_token's StringLiteral arm on "
    "which the input quote is not known to be Brackets takes the output quote from get_quote_to_use. Not decided: that every layout path reaches "
    "format_function_args with the right next-node information (value dependent)."
    "Later rounds: (R-OPT(parens), other direction) a path that keeps the parentheses although should_omit_* holds and no documented condition is known to fail must have looked at the argument's kind. Rounds 17-19: (R-OPT(measure)) suffixes formatted without look-ahead are measured, never returned. Rounds 20-21: (R-RAWNODE(closure)).")
ASSUMPTIONS = ["README semantics of the option values as restated in r_opt.py",
               "rustc MIR and Instance::try_resolve are trusted"]


def run(ctx):
    return [r_opt.rule_quote(ctx, "C11"), r_opt.rule_space(ctx, "C11"), r_opt.rule_call_parens(ctx, "C11"), r_opt.rule_lookahead(ctx, "C11"), r_opt.rule_measurement_only(ctx, "C11"), r_layout.rule_closure_raw(ctx, "C11")]
